package rules

import (
	"fmt"
	"go/token"
	"go/types"

	"golang.org/x/tools/go/ssa"

	"verif/sa/engine"
)

// ---- shared: (node, key) pairs of the state trie --------------------------------

// nodeKeyPairs: values N (a trie node) and K (its key) that name the same node:
// N = getNode(K), or N, K = results #0, #1 of one call of a trie method that
// returns (Node, Key, error).
type nkPair struct {
	node ssa.Value
	key  ssa.Value
	call *ssa.Call
}

func nodeKeyPairs(f *ssa.Function) []nkPair {
	var out []nkPair
	engine.Instrs(f, func(in ssa.Instruction) {
		c, ok := in.(*ssa.Call)
		if !ok {
			return
		}
		sc := c.Call.StaticCallee()
		if sc == nil || recvNamed(sc) != "MerklePatriciaTrie" {
			return
		}
		var n, k ssa.Value
		for _, ref := range engine.Referrers(c) {
			if ex, ok := ref.(*ssa.Extract); ok {
				switch ex.Index {
				case 0:
					n = ex
				case 1:
					if sc.Signature.Results().Len() == 3 {
						k = ex
					}
				}
			}
		}
		if sc.Name() == "getNode" && len(c.Call.Args) == 2 {
			if n != nil {
				out = append(out, nkPair{n, c.Call.Args[1], c})
			}
			return
		}
		if sc.Signature.Results().Len() == 3 && n != nil && k != nil {
			out = append(out, nkPair{n, k, c})
		}
	})
	return out
}

// assertedFull: instruction `at` is reached only after `node` was successfully
// type-asserted to *T (single-type arm of a type switch, or a plain assertion).
func assertedAs(f *ssa.Function, node ssa.Value, typ string, at ssa.Instruction) bool {
	arms := typeArms(f, node)
	if a := arms[typ]; a != nil && a.blocks[at.Block()] {
		return true
	}
	// non-comma-ok assertion dominating the site
	for _, ref := range engine.Referrers(node) {
		if ta, ok := ref.(*ssa.TypeAssert); ok && !ta.CommaOk {
			if n := namedOf(ta.AssertedType); n != nil && n.Obj().Name() == typ && engine.InstrDominates(ta, at) {
				return true
			}
		}
	}
	return false
}

func valIsNode(v ssa.Value, typ string) bool {
	for {
		if mi, ok := v.(*ssa.MakeInterface); ok {
			v = mi.X
			continue
		}
		break
	}
	if n := namedOf(v.Type()); n != nil && n.Obj().Name() == typ {
		_, isPtr := v.Type().Underlying().(*types.Pointer)
		return isPtr
	}
	return false
}

// ---- DEP-extchild (C02): an extension's child is a branch ------------------------

// extChildSites: every value installed as the child key of an extension node.
type extSite struct {
	at  ssa.Instruction
	key ssa.Value
	how string
}

func extChildSites(f *ssa.Function) []extSite {
	var out []extSite
	engine.Instrs(f, func(in ssa.Instruction) {
		switch x := in.(type) {
		case *ssa.Call:
			if staticCalleeIs(x, pkgUtil, "", "NewExtensionNode") {
				out = append(out, extSite{x, x.Call.Args[1], "NewExtensionNode"})
			} else if staticCalleeIs(x, pkgUtil, "MerklePatriciaTrie", "insertExtension") {
				out = append(out, extSite{x, x.Call.Args[3], "insertExtension"})
			}
		case *ssa.Store:
			if fld := engine.FieldOf(x.Addr); fld != nil && fld.Name() == "NodeKey" {
				out = append(out, extSite{x, x.Val, "NodeKey ="})
			}
		}
	})
	return out
}

func depExtChild(r *engine.Run, rule string) {
	n := 0
	// (c) side condition: an insert below a branch returns a branch
	branchReturns := true
	for _, name := range []string{"insertAtNode", "insertAfterPathTraversal"} {
		f := r.Fn(rule, pkgUtil, "MerklePatriciaTrie", name)
		if f == nil {
			continue
		}
		nodeP := paramRole(f, "node")
		arm := typeArms(f, nodeP)["FullNode"]
		if arm == nil {
			r.Anchor(rule, fmt.Errorf("unresolved anchor: *FullNode arm of %s", fn(f)))
			continue
		}
		for _, ret := range engine.Returns(f) {
			if !arm.blocks[ret.Block()] || len(ret.Results) != 3 {
				continue
			}
			k := resultValue(ret, 1)
			if c, ok := k.(*ssa.Const); ok && c.IsNil() {
				continue // error return
			}
			good := keyOfBranch(k, 0)
			n++
			if !r.Check(good, rule, fn(f)+"|*FullNode arm returns a branch", r.P.Pos(ret.Pos()), "the arm returns the key of a *FullNode handed to insertNode", "an insert into a branch returns something that is not provably a branch: an extension updated through insert could end up over a non-branch child") {
				branchReturns = false
			}
		}
	}
	_ = branchReturns
	for _, f := range mptFuncs(r) {
		sites := extChildSites(f)
		if len(sites) == 0 {
			continue
		}
		pairs := nodeKeyPairs(f)
		o := ord{}
		for _, s := range sites {
			k := stripCT(s.key)
			if c, ok := k.(*ssa.Const); ok && c.IsNil() {
				continue // placeholder of the decoder
			}
			n++
			r.CallSites++
			why := ""
			switch x := k.(type) {
			case *ssa.Parameter:
				if f.Name() == "insertExtension" || f.Name() == "NewExtensionNode" {
					why = "parameter of a constructor wrapper: decided at its call sites"
				}
			case *ssa.UnOp:
				if fld := fieldLoadOf(x); fld != nil && fld.Name() == "NodeKey" && x.Op == token.MUL {
					why = "the child key of an existing extension (a branch by induction)"
				}
			}
			if why == "" {
				for _, p := range pairs {
					if p.key != k && engine.ValKey(stripCT(p.key)) != engine.ValKey(k) {
						continue
					}
					sc := p.call.Call.StaticCallee()
					switch {
					case sc.Name() == "insertNode" && valIsNode(p.call.Call.Args[2], "FullNode"):
						why = "key returned by insertNode for a *FullNode"
					case sc.Name() == "insert" && func() bool {
						u, ok := stripCT(p.call.Call.Args[2]).(*ssa.UnOp)
						if !ok {
							return false
						}
						fld := fieldLoadOf(u)
						return fld != nil && fld.Name() == "NodeKey"
					}():
						why = "key returned by insert started at an extension's child (a branch; insert into a branch returns a branch)"
					case assertedAs(f, p.node, "FullNode", s.at):
						why = "the node with this key was type-tested to be a *FullNode on every path to the site"
					}
					if why != "" {
						break
					}
				}
			}
			r.Check(why != "", rule, o.next(fn(f)+"|"+s.how), r.P.Pos(s.at.Pos()), why,
				"the child installed under an extension node is not provably a branch (*FullNode): an extension over an extension or a leaf is a second encoding of the same content, so the root depends on history")
		}
	}
	if n < 10 {
		r.Anchor(rule, fmt.Errorf("unresolved anchor: %d extension-child sites found", n))
	}
}

// ---- WHO-livedelete (C04/C01): a node handed to deleteNode is not kept -------------

func whoLiveDelete(r *engine.Run, rule string) {
	n := 0
	for _, f := range mptFuncs(r) {
		pairs := nodeKeyPairs(f)
		if len(pairs) == 0 {
			continue
		}
		o := ord{}
		engine.Instrs(f, func(in ssa.Instruction) {
			c, ok := in.(*ssa.Call)
			if !ok || !staticCalleeIs(c, pkgUtil, "MerklePatriciaTrie", "deleteNode") {
				return
			}
			victim := c.Call.Args[1]
			for _, p := range pairs {
				if p.node != victim {
					continue
				}
				n++
				r.CallSites++
				bad := ""
				kk := engine.ValKey(stripCT(p.key))
				engine.Instrs(f, func(i2 ssa.Instruction) {
					var installed ssa.Value
					switch x := i2.(type) {
					case *ssa.Call:
						switch {
						case staticCalleeIs(x, pkgUtil, "", "NewExtensionNode"):
							installed = x.Call.Args[1]
						case staticCalleeIs(x, pkgUtil, "MerklePatriciaTrie", "insertExtension"):
							installed = x.Call.Args[3]
						case staticCalleeIs(x, pkgUtil, "FullNode", "PutChild"):
							installed = x.Call.Args[2]
						}
					case *ssa.Store:
						if fld := engine.FieldOf(x.Addr); fld != nil && fld.Name() == "NodeKey" {
							installed = x.Val
						}
					}
					if installed == nil {
						return
					}
					if stripCT(installed) != stripCT(p.key) && engine.ValKey(stripCT(installed)) != kk {
						return
					}
					if engine.ReachableAfter(i2, in) || engine.ReachableAfter(in, i2) {
						bad = "its key is installed as a child reference at " + r.P.Pos(i2.Pos())
					}
				})
				r.Check(bad == "", rule, o.next(fn(f)+"|deleteNode"), r.P.Pos(c.Pos()), "the deleted node's key is not installed in any node built on the same path",
					"a node that the rebuilt trie still references is removed from the store and recorded dead ("+bad+")")
			}
		})
	}
	if n < 2 {
		r.Anchor(rule, fmt.Errorf("unresolved anchor: %d deleteNode calls on fetched nodes found", n))
	}
}

// ---- DOM-adopt (C03): a successful merge leaves the parent at the child's root -----

func provablyNonNil(f *ssa.Function, at *ssa.BasicBlock, v ssa.Value) bool {
	v = through(v)
	if c, ok := v.(*ssa.Call); ok {
		if extCalleeIs(c, "errors", "", "New") || extCalleeIs(c, "fmt", "", "Errorf") || extCalleeIs(c, "core/common", "", "NewError") || extCalleeIs(c, "core/common", "", "NewErrorf") {
			return true
		}
	}
	atoms, ok := engine.AtomsOn(f, at)
	if !ok {
		return false
	}
	for _, b := range f.Blocks {
		iff, ok := b.Instrs[len(b.Instrs)-1].(*ssa.If)
		if !ok {
			continue
		}
		bo, ok := iff.Cond.(*ssa.BinOp)
		if !ok || (bo.Op != token.NEQ && bo.Op != token.EQL) {
			continue
		}
		c, isC := bo.Y.(*ssa.Const)
		if !isC || !c.IsNil() || bo.X != v {
			continue
		}
		key, pos := engine.CondAtom(iff.Cond)
		if t, had := atoms[key]; had {
			condTrue := t == pos
			if (bo.Op == token.NEQ && condTrue) || (bo.Op == token.EQL && !condTrue) {
				return true
			}
		}
	}
	return false
}

func domAdopt(r *engine.Run, rule string) {
	n := 0
	merge := r.Fn(rule, pkgUtil, "MerklePatriciaTrie", "mergeChanges")
	for _, name := range []string{"MergeMPTChanges", "MergeChanges", "mergeChanges"} {
		f := r.Fn(rule, pkgUtil, "MerklePatriciaTrie", name)
		if f == nil {
			continue
		}
		own := func(v ssa.Value) bool {
			if isFieldLoad("root")(v) {
				return true
			}
			if c, ok := v.(*ssa.Call); ok && staticCalleeIs(c, pkgUtil, "MerklePatriciaTrie", "GetRoot") && c.Call.Args[0] == f.Params[0] {
				return true
			}
			return false
		}
		child := func(v ssa.Value) bool {
			if isParamNamed("newRoot")(v) {
				return true
			}
			if c, ok := v.(*ssa.Call); ok && c.Call.IsInvoke() && c.Call.Method.Name() == "GetRoot" {
				p, isP := c.Call.Value.(*ssa.Parameter)
				return isP && p != f.Params[0]
			}
			return false
		}
		same := bytesEqualOn(f, own, child)
		var adopt []ssa.Instruction
		engine.Instrs(f, func(in ssa.Instruction) {
			switch x := in.(type) {
			case *ssa.Call:
				if merge != nil && x.Call.StaticCallee() == merge {
					adopt = append(adopt, x)
				}
				if staticCalleeIs(x, pkgUtil, "MerklePatriciaTrie", "setRoot") && isParamNamed("newRoot")(stripCT(x.Call.Args[1])) {
					adopt = append(adopt, x)
				}
			case *ssa.Store:
				if fld := engine.FieldOf(x.Addr); fld != nil && fld.Name() == "root" && isParamNamed("newRoot")(stripCT(x.Val)) {
					adopt = append(adopt, x)
				}
			}
		})
		o := ord{}
		for _, ret := range engine.Returns(f) {
			if ret.Block().Comment == "recover" || len(ret.Results) != 1 {
				continue
			}
			n++
			v := resultValue(ret, 0)
			why := ""
			switch {
			case provablyNonNil(f, ret.Block(), v):
				why = "returns a non-nil error"
			default:
				if c, ok := v.(*ssa.Call); ok && merge != nil && c.Call.StaticCallee() == merge {
					why = "returns the result of mergeChanges"
				}
				for _, a := range adopt {
					if why == "" && engine.InstrDominates(a, ret) {
						why = "reached only after the child's root was adopted (" + r.P.Pos(a.Pos()) + ")"
					}
				}
				for _, e := range same {
					if why == "" && truthAt(f, ret.Block(), e, true) {
						why = "reached only when this trie's root already equals the child's root"
					}
				}
			}
			r.Check(why != "", rule, o.next(fn(f)+"|return"), r.P.Pos(ret.Pos()), why,
				"the merge can report success on a path where this trie's root is neither already equal to the child's root nor set to it: the parent silently keeps its old state (the child's deletions and updates are lost to later children)")
		}
	}
	if n < 7 {
		r.Anchor(rule, fmt.Errorf("unresolved anchor: %d returns found in the merge entry points", n))
	}
}

// ---- DOM-samekey (C05): an unchanged re-write is not reported as a change ----------

func domSameKey(r *engine.Run, rule string) {
	_, f := mptStoreFn(r, rule)
	if f == nil {
		return
	}
	oldP := f.Params[1]
	// bytes.Equal(okey, ckey): okey = oldNode.GetHashBytes(), ckey = newNode.GetHashBytes()
	isHashOf := func(p ssa.Value) func(ssa.Value) bool {
		return func(v ssa.Value) bool {
			c, ok := v.(*ssa.Call)
			return ok && c.Call.IsInvoke() && c.Call.Method.Name() == "GetHashBytes" && c.Call.Value == p
		}
	}
	same := bytesEqualOn(f, isHashOf(oldP), isHashOf(f.Params[2]))
	n := 0
	o := ord{}
	engine.Instrs(f, func(in ssa.Instruction) {
		c, ok := in.(*ssa.Call)
		if !ok || !(staticCalleeIs(c, pkgUtil, "ChangeCollector", "AddChange") || (c.Call.IsInvoke() && c.Call.Method.Name() == "AddChange")) {
			return
		}
		n++
		r.CallSites++
		atoms, _ := engine.AtomsOn(f, c.Block())
		why := ""
		if t, had := atoms[engine.EqKey(oldP, ssa.NewConst(nil, oldP.Type()))]; had && t {
			why = "reached only when there is no old node"
		}
		if why == "" {
			// any nil comparison of oldNode
			for _, b := range f.Blocks {
				if iff, ok := b.Instrs[len(b.Instrs)-1].(*ssa.If); ok {
					if bo, ok := iff.Cond.(*ssa.BinOp); ok && bo.X == oldP {
						if k, isC := bo.Y.(*ssa.Const); isC && k.IsNil() {
							key, pos := engine.CondAtom(iff.Cond)
							if t, had := atoms[key]; had {
								condTrue := t == pos
								if (bo.Op == token.EQL && condTrue) || (bo.Op == token.NEQ && !condTrue) {
									why = "reached only when there is no old node"
								}
							}
						}
					}
				}
			}
		}
		for _, e := range same {
			if why == "" && truthAt(f, c.Block(), e, false) {
				why = "reached only when the old and the new node have different keys"
			}
		}
		r.Check(why != "", rule, o.next(fn(f)+"|AddChange"), r.P.Pos(c.Pos()), why,
			"a node re-written with an unchanged key is reported to the change collector as old and new at once: its hash enters the dead set although the node is live (a merge then deletes it from the parent, a prune removes it)")
	})
	if n < 1 || len(same) == 0 {
		r.Anchor(rule, fmt.Errorf("unresolved anchor: AddChange calls (%d) / old-key vs new-key comparison (%d) in insertNode", n, len(same)))
	}
}

// ---- DOM-lift (C01): only a value-less branch is replaced by its child ------------

func domLift(r *engine.Run, rule string) {
	n := 0
	for _, f := range mptFuncs(r) {
		o := ord{}
		engine.Instrs(f, func(in ssa.Instruction) {
			c, ok := in.(*ssa.Call)
			if !ok || !staticCalleeIs(c, pkgUtil, "MerklePatriciaTrie", "liftOnlyChild") {
				return
			}
			n++
			r.CallSites++
			fnArg := c.Call.Args[2]
			why := ""
			// (b) the value was cleared on the very object
			for _, ref := range engine.Referrers(fnArg) {
				if sc, ok := ref.(*ssa.Call); ok && staticCalleeIs(sc, pkgUtil, "FullNode", "SetValue") && sc.Call.Args[0] == fnArg && nilConst(sc.Call.Args[1]) && engine.InstrDominates(sc, c) {
					why = "the branch's value was cleared (SetValue(nil)) on every path to the call"
				}
			}
			// no other SetValue on the object
			for _, ref := range engine.Referrers(fnArg) {
				if sc, ok := ref.(*ssa.Call); ok && staticCalleeIs(sc, pkgUtil, "FullNode", "SetValue") && sc.Call.Args[0] == fnArg && !nilConst(sc.Call.Args[1]) {
					why = ""
					fnArg = nil
				}
			}
			// (a) clone of a branch whose HasValue() tested false
			if why == "" && fnArg != nil {
				{
					// the branch itself, or a clone of it
					src := fnArg
					if ta, ok := fnArg.(*ssa.TypeAssert); ok {
						if cl, ok := ta.X.(*ssa.Call); ok && cl.Call.IsInvoke() && cl.Call.Method.Name() == "Clone" || ok && staticCalleeIs(cl, pkgUtil, "FullNode", "Clone") {
							if cl.Call.IsInvoke() {
								src = cl.Call.Value
							} else {
								src = cl.Call.Args[0]
							}
						}
					}
					{
						engine.Instrs(f, func(i2 ssa.Instruction) {
							hv, ok := i2.(*ssa.Call)
							if !ok || !staticCalleeIs(hv, pkgUtil, "FullNode", "HasValue") || hv.Call.Args[0] != src {
								return
							}
							if truthAt(f, c.Block(), hv, false) {
								why = "the lifted branch is (a clone of) a branch whose HasValue() tested false on every path to the call"
							}
						})
					}
				}
			}
			r.Check(why != "", rule, o.next(fn(f)+"|liftOnlyChild"), r.P.Pos(c.Pos()), why,
				"a branch is replaced by its only child on a path where the branch may still hold a value of its own: liftOnlyChild does not carry the value, so the entry stored at the branch's path disappears")
		})
	}
	if n < 2 {
		r.Anchor(rule, fmt.Errorf("unresolved anchor: %d calls of liftOnlyChild found", n))
	}
}

// keyOfBranch: k is the key result of insertNode applied to a *FullNode, or of a
// trie method (an extracted arm) all of whose non-error returns are.
func keyOfBranch(k ssa.Value, depth int) bool {
	ex, ok := k.(*ssa.Extract)
	if !ok || depth > 2 {
		return false
	}
	c, ok := ex.Tuple.(*ssa.Call)
	if !ok {
		return false
	}
	if staticCalleeIs(c, pkgUtil, "MerklePatriciaTrie", "insertNode") {
		return ex.Index == 1 && valIsNode(c.Call.Args[2], "FullNode")
	}
	g := c.Call.StaticCallee()
	if g == nil || recvNamed(g) != "MerklePatriciaTrie" || len(g.Blocks) == 0 || g.Signature.Results().Len() != 3 || ex.Index != 1 {
		return false
	}
	any := false
	for _, ret := range engine.Returns(g) {
		if len(ret.Results) != 3 {
			continue
		}
		kk := resultValue(ret, 1)
		if cst, ok := kk.(*ssa.Const); ok && cst.IsNil() {
			continue // error return
		}
		if !keyOfBranch(kk, depth+1) {
			return false
		}
		any = true
	}
	return any
}

// ---- DEP-linkback (state trie): what a recursive step returns is installed -----------

// depLinkBackMPT: the key returned by a recursive insert/delete step (insert,
// insertLeaf, insertExtension, insertNode of a fresh node, delete) is installed
// in the node being rebuilt (PutChild / NodeKey / constructor argument), handed
// to setRoot, or returned. A key that is only compared with nil is a rebuilt
// subtree nobody points to.
func depLinkBackMPT(r *engine.Run, rule string) {
	n := 0
	for _, f := range mptFuncs(r) {
		o := ord{}
		engine.Instrs(f, func(in ssa.Instruction) {
			c, ok := in.(*ssa.Call)
			if !ok {
				return
			}
			sc := c.Call.StaticCallee()
			if sc == nil || recvNamed(sc) != "MerklePatriciaTrie" || sc.Signature.Results().Len() != 3 {
				return
			}
			switch sc.Name() {
			case "insert", "insertLeaf", "insertExtension", "insertNode", "insertAtNode", "insertAfterPathTraversal", "delete", "deleteAtNode", "deleteAfterPathTraversal", "liftOnlyChild":
			default:
				return
			}
			var key ssa.Value
			for _, ref := range engine.Referrers(c) {
				if ex, ok := ref.(*ssa.Extract); ok && ex.Index == 1 {
					key = ex
				}
			}
			if key == nil {
				// the call's results are returned as a whole (return f(...)): fine
				whole := false
				for _, ref := range engine.Referrers(c) {
					if ex, ok := ref.(*ssa.Extract); ok {
						for _, r2 := range engine.Referrers(ex) {
							if _, isRet := r2.(*ssa.Return); isRet {
								whole = true
							}
						}
					}
				}
				if len(engine.Referrers(c)) == 0 || !whole {
					// result tuple dropped entirely is covered by ERR-dropped
				}
				return
			}
			if len(engine.Referrers(key)) == 0 {
				return // discarded on purpose (the replay of a merge: the nodes are linked already)
			}
			n++
			used := false
			seen := map[ssa.Value]bool{}
			var walk func(v ssa.Value)
			walk = func(v ssa.Value) {
				if seen[v] {
					return
				}
				seen[v] = true
				for _, ref := range engine.Referrers(v) {
					switch x := ref.(type) {
					case *ssa.Return, *ssa.Store, *ssa.MapUpdate:
						used = true
					case *ssa.Call:
						used = true // PutChild, insertExtension, NewExtensionNode, setRoot, ...
					case *ssa.Phi:
						walk(x)
					case *ssa.ChangeType:
						walk(x)
					case *ssa.MakeInterface:
						walk(x)
					}
				}
			}
			walk(key)
			r.Check(used, rule, o.next(fn(f)+"|key of "+sc.Name()), r.P.Pos(c.Pos()), "the returned key is installed, passed on or returned",
				"the key of the subtree rebuilt by "+sc.Name()+" is never installed in its parent, handed to setRoot or returned: the change below this node is written to the store but nothing points to it")
		})
	}
	if n < 10 {
		r.Anchor(rule, fmt.Errorf("unresolved anchor: %d recursive steps with a used key result", n))
	}
}

// depValueStored: an insert stores the value it was given: in insertAtNode and
// insertAfterPathTraversal every path to a success return passes a call that
// receives the value parameter (SetValue, insertLeaf, NewFullNode, the recursive
// insert).
func depValueStored(r *engine.Run, rule string) {
	n := 0
	for _, name := range []string{"insertAtNode", "insertAfterPathTraversal"} {
		f := r.Fn(rule, pkgUtil, "MerklePatriciaTrie", name)
		if f == nil {
			continue
		}
		valP := f.Params[1]
		uses := map[*ssa.BasicBlock]bool{}
		engine.Instrs(f, func(in ssa.Instruction) {
			c, ok := in.(ssa.CallInstruction)
			if !ok {
				return
			}
			for _, a := range c.Common().Args {
				v := a
				if mi, ok := v.(*ssa.MakeInterface); ok {
					v = mi.X
				}
				if v == ssa.Value(valP) {
					uses[in.Block()] = true
				}
			}
		})
		o := ord{}
		for _, ret := range engine.Returns(f) {
			if len(ret.Results) != 3 || !nilConst(resultValue(ret, 2)) && !isCallResult(resultValue(ret, 2)) {
				continue
			}
			// error returns that hand back a failed call's error are not successes
			if ev := resultValue(ret, 2); !nilConst(ev) {
				if ex, ok := ev.(*ssa.Extract); ok {
					if c, ok := ex.Tuple.(*ssa.Call); ok {
						// return g(...): success or failure of g; g must have been given the value
						given := false
						for _, a := range c.Call.Args {
							if a == ssa.Value(valP) {
								given = true
							}
						}
						if given {
							continue
						}
					}
				}
			}
			n++
			good := uses[ret.Block()]
			if !good {
				paths, ok := engine.PathFactsAvoid(f, ret.Block(), uses, 4096)
				good = ok && len(paths) == 0
				if ok && len(paths) > 0 {
					// paths on which the returned error is provably non-nil are not successes
					good = provablyNonNil(f, ret.Block(), resultValue(ret, 2))
				}
			}
			r.Check(good, rule, o.next(fn(f)+"|value reaches the trie"), r.P.Pos(ret.Pos()), "every path to the return hands the value to SetValue / insertLeaf / the recursive insert",
				"an insert can succeed on a path that never stored the value it was given: the path stays without (or with its old) value while the operation reports success")
		}
	}
	if n < 4 {
		r.Anchor(rule, fmt.Errorf("unresolved anchor: %d returns of the insert arms", n))
	}
}

func isCallResult(v ssa.Value) bool {
	ex, ok := v.(*ssa.Extract)
	if !ok {
		return false
	}
	_, ok = ex.Tuple.(*ssa.Call)
	return ok
}

// depRehome: a child that moves up (its parent disappears) gets a new position:
// a clone of a node other than the one being replaced that is then inserted has
// its Path assigned; a leaf also its Prefix.
func depRehome(r *engine.Run, rule string) {
	n := 0
	for _, f := range mptFuncs(r) {
		nodeP := paramRole(f, "node")
		o := ord{}
		engine.Instrs(f, func(in ssa.Instruction) {
			ta, ok := in.(*ssa.TypeAssert)
			if !ok || ta.CommaOk {
				return
			}
			nm := namedOf(ta.AssertedType)
			if nm == nil || (nm.Obj().Name() != "LeafNode" && nm.Obj().Name() != "ExtensionNode") {
				return
			}
			cl, ok := ta.X.(*ssa.Call)
			if !ok || !cl.Call.IsInvoke() || cl.Call.Method.Name() != "Clone" {
				return
			}
			// whose clone? the node being replaced (an update in place) or another node (a move)
			src := cl.Call.Value
			for {
				if t2, ok := src.(*ssa.TypeAssert); ok {
					src = t2.X
					continue
				}
				if ex, ok := src.(*ssa.Extract); ok {
					if t2, ok := ex.Tuple.(*ssa.TypeAssert); ok {
						src = t2.X
						continue
					}
				}
				break
			}
			if src == nodeP {
				return
			}
			// inserted as the replacement?
			inserted := false
			for _, ref := range engine.Referrers(ta) {
				if mi, ok := ref.(*ssa.MakeInterface); ok {
					for _, r2 := range engine.Referrers(mi) {
						if c2, ok := r2.(*ssa.Call); ok && staticCalleeIs(c2, pkgUtil, "MerklePatriciaTrie", "insertNode") {
							inserted = true
						}
						if ph, ok := r2.(*ssa.Phi); ok {
							for _, r3 := range engine.Referrers(ph) {
								if c3, ok := r3.(*ssa.Call); ok && staticCalleeIs(c3, pkgUtil, "MerklePatriciaTrie", "insertNode") {
									inserted = true
								}
							}
						}
					}
				}
			}
			if !inserted {
				return
			}
			n++
			set := map[string]bool{}
			for _, ref := range engine.Referrers(ta) {
				if fa, ok := ref.(*ssa.FieldAddr); ok {
					for _, r2 := range engine.Referrers(fa) {
						if st, ok := r2.(*ssa.Store); ok && st.Addr == ssa.Value(fa) {
							set[engine.FieldOf(fa).Name()] = true
						}
					}
				}
			}
			need := []string{"Path"}
			if nm.Obj().Name() == "LeafNode" {
				need = append(need, "Prefix")
			}
			missing := ""
			for _, k := range need {
				if !set[k] {
					missing += " " + k
				}
			}
			r.Check(missing == "", rule, o.next(fn(f)+"|moved *"+nm.Obj().Name()), r.P.Pos(ta.Pos()), "the moved node's position fields are reassigned",
				"a child that moves up to replace its parent keeps its old"+missing+": its path no longer spells the key it is stored under, so lookups of that entry fail and the root differs from a fresh build")
		})
	}
	if n < 3 {
		r.Anchor(rule, fmt.Errorf("unresolved anchor: %d moved child clones found", n))
	}
}

// domRootInstalled: a successful Insert/Delete installs the new root: every
// success return of Insert and Delete that follows a trie walk is dominated by
// setRoot.
func domRootInstalled(r *engine.Run, rule string) {
	n := 0
	for _, name := range []string{"Insert", "Delete"} {
		top := r.Fn(rule, pkgUtil, "MerklePatriciaTrie", name)
		if top == nil {
			continue
		}
		// the operation and the helpers that exist only to carry part of it
		group := opGroup(r, top)
		var callsWalk func(g *ssa.Function, depth int) bool
		callsWalk = func(g *ssa.Function, depth int) bool {
			res := false
			engine.Instrs(g, func(in ssa.Instruction) {
				if c, ok := in.(*ssa.Call); ok {
					if sc := c.Call.StaticCallee(); sc != nil && recvNamed(sc) == "MerklePatriciaTrie" {
						switch sc.Name() {
						case "insert", "insertLeaf", "delete":
							res = true
						default:
							if depth < 2 && sc != g && inGroup(group, sc) && callsWalk(sc, depth+1) {
								res = true
							}
						}
					}
				}
			})
			return res
		}
		for _, f := range group {
			var walks, sets []*ssa.Call
			engine.Instrs(f, func(in ssa.Instruction) {
				c, ok := in.(*ssa.Call)
				if !ok {
					return
				}
				sc := c.Call.StaticCallee()
				if sc == nil || recvNamed(sc) != "MerklePatriciaTrie" {
					return
				}
				switch sc.Name() {
				case "insert", "insertLeaf", "delete":
					walks = append(walks, c)
				case "setRoot":
					sets = append(sets, c)
				default:
					if sc != f && inGroup(group, sc) && callsWalk(sc, 0) {
						walks = append(walks, c)
					}
				}
			})
			o := ord{}
			for _, ret := range engine.Returns(f) {
				if len(ret.Results) != 2 || !nilConst(resultValue(ret, 1)) {
					continue
				}
				walked := false
				for _, w := range walks {
					if engine.ReachableAfter(w, ret) {
						walked = true
					}
				}
				if !walked {
					continue
				}
				n++
				good := false
				for _, s := range sets {
					if engine.InstrDominates(s, ret) {
						good = true
					}
				}
				r.Check(good, rule, o.next(fn(f)+"|success installs the root"), r.P.Pos(ret.Pos()), "setRoot dominates the success return",
					"the operation rebuilds the trie and reports success without installing the new root: the trie keeps answering from the old root")
			}
		}
	}
	if n < 2 {
		r.Anchor(rule, fmt.Errorf("unresolved anchor: %d success returns after a walk in Insert/Delete", n))
	}
}
