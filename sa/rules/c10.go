package rules

import (
	"fmt"
	"go/token"
	"sort"
	"strings"

	"golang.org/x/tools/go/ssa"

	"verif/sa/engine"
)

func init() {
	register(&Check{ID: "C10", Pkgs: []string{pkgWMPT}, Run: runC10})
}

func runC10(r *engine.Run) {
	r.Rule("PURE-export", "collecting a path export stores into no child slot or value link of an existing node of the trie: what is not sent is replaced by a hash reference in the export only (a subtree collapsed in place is gone while changes are uncommitted or there is no storage, and no block below it can be proven)")
	r.Rule("LOCK-rootwrite", "see C09: a method of the weighted trie that rewrites the root under the trie's lock holds it in write mode (concurrent writers under a read lock lose weight updates: branch weights stop being the sums of their children and honest proofs do not verify to the root)")
	r.Rule("DEP-weight", "see C09: in the branch arm of insert and delete the child's weight change is folded into the branch weight before every success return that follows the descent, and the returned change depends on it: the prover navigates by these weights and the verifier sums the children, so a stale branch weight makes honest proofs verify to another root")
	r.Rule("DOM-dirty", "see C09: a store to a hashed field of a node (also a leaf's weight) marks the node dirty on every path: a leaf re-weighted with identical value bytes otherwise keeps its cached hash and honest proofs verify to a root other than Root()")
	r.Rule("ORDER-recompute", "in every success arm of verifyProof the verified child (result of the recursive verification) is stored into the node, dirty=true is stored and CalcHash() is called on that node, all before the node is returned; VerifyBlockProof returns Hash() of exactly that node: no wire-provided hash reaches the result without being recomputed")
	r.Rule("DOM-range", "verifyProof's value and shared-prefix arms succeed only when block > node.Weight() tested false; the branch arm descends only under block <= child.Weight(), carries block - skipped weight, and reports ErrWeightNotInRange when the children are exhausted")
	r.Rule("AGREE-limits", "see C12: proof verification decodes with the same CBOR limits as the export importer (an honest proof of a full-depth path has one element more than the key has nibbles and must not be rejected for its size)")
	r.Rule("AGREE-domain", "the hash pre-images of the node kinds are domain separated: each kind's CalcHash starts its pre-image with a constant tag that differs between kinds; without it a value node whose bytes are a branch's child hashes has the branch's hash, so a proof may present a branch as a value")
	r.Rule("AGREE-bind", "navigated-by is a subset of committed-to: what verifyProof reads from a node's children to decide where to descend (their Weight()) must be part of what that node kind's CalcHash appends to its pre-image per child; a value node's pre-image contains its weight and value")
	r.Rule("ORDER-hashfresh", "in the Serialize methods of the hashed node kinds every read of a cached hash (the receiver's hash field, a child's Hash()) is reached only on paths where the receiver's dirty flag tested false or CalcHash() was called on the receiver: proofs and exported paths (which serialise nodes directly, possibly after an update and before the next Root()/Commit) never carry a stale hash")
	r.Rule("DOM-proofappend", "in getBlockProof the serialisation of the current node is appended to the proof before every descent and before every successful termination: the proof contains every node of the walked path")
	r.Rule("AGREE-endian", "see C09: one byte order for all fixed-width fields (prover, verifier and hash agree on the weights they read)")
	r.Rule("AGREE-persist", "every field a Serialize method stores into a PersistNode* struct is read by DeserializeNode and vice versa")
	r.Rule("AGREE-decode", "DeserializeNode accumulates a branch's weight from the child weights it reads and stores every accepted child entry into a child slot; shortNode.Serialize fills the persisted value reference from the value's Hash() and Weight()")
	r.Rule("AGREE-childset", "the branch hash covers every child slot, so routingNode.Serialize writes a child whenever it is present: the write into the persisted child list is conditional only on the child's nil test and on type assertions that select the layout, never on another property of the child")
	r.Rule("FRESH-copy", "for every node type of the weighted trie whose fields are written after construction (insert updates value nodes in place; Serialize/CalcHash/commit write hash and dirty), no return of Copy or CopyRoot is the receiver itself and no child slot of the copy is filled with the receiver's own child object: a CopyRoot snapshot shares no mutable node with the trie it was taken from (proofs produced from a snapshot keep verifying against the snapshot's root while the original changes)")
	r.Rule("FRESH-keybuf", "see C09: a node's key is never appended onto (the block-ownership walk hands the prefix down and appends to it)")
	r.Rule("DOM-reject", "in the weighted trie a return of ErrWeightNotInRange that is reached through a single comparison of the block with a weight is reached only where block > weight holds (blocks are numbered from 1, a subtree of weight w owns 1..w): block >= weight turns away the last block of a subtree")
	r.Rule("REF-fieldbuf", "no method of the weighted trie returns the byte view (Bytes()) of a bytes.Buffer kept in a field of its receiver: the next call rewrites the buffer, so a proof handed out earlier would change under its holder and stop verifying")
	r.Rule("FRESH-resolved", "see C09: resolveHashNode hands out a node decoded from storage for this call and keeps it nowhere else (no per-trie cache of decoded nodes): the walks mutate what they get, and a node served from a cache after a rollback or collection pass yields proofs for a state the storage no longer holds")
	r.NotDec = append(r.NotDec, "absence of other forgeries (a statement over all byte strings)", "that honest proofs verify for every content (value-level)")
	f := r.Fn("ORDER-recompute", pkgWMPT, "", "verifyProof")
	if f == nil {
		return
	}
	orderRecompute(r, f)
	domRangeVerify(r, f)
	agreeBind(r, f)
	agreeLimits(r, "AGREE-limits")
	agreeDomain(r)
	orderHashFresh(r, "ORDER-hashfresh")
	domProofAppend(r, "DOM-proofappend")
	agreeEndian(r, "AGREE-endian")
	agreePersist(r, "AGREE-persist")
	agreeDecode(r, "AGREE-decode")
	freshCopy(r, "FRESH-copy")
	agreeChildSet(r, "AGREE-childset")
	freshKeyBuf(r, "FRESH-keybuf")
	freshResolved(r, "FRESH-resolved")
	refFieldBuf(r, "REF-fieldbuf", funcsOfPkg(r, pkgWMPT))
	domReject(r, "DOM-reject")
	rejectKind(r, "DOM-reject")
	depWeight(r)
	domDirty(r)
	pureExport(r, "PURE-export")
	lockRootWrite(r, "LOCK-rootwrite")
}

func orderRecompute(r *engine.Run, f *ssa.Function) {
	const rule = "ORDER-recompute"
	n := 0
	o := ord{}
	for _, ret := range engine.Returns(f) {
		if len(ret.Results) != 3 || !nilConst(ret.Results[2]) || nilConst(ret.Results[0]) {
			continue
		}
		n++
		mi, ok := ret.Results[0].(*ssa.MakeInterface)
		if !ok {
			r.Undec(rule, o.next(fn(f)+"|success return"), r.P.Pos(ret.Pos()), "returned node is not a concrete node value")
			continue
		}
		obj := mi.X
		kind := "?"
		if nm := namedOf(obj.Type()); nm != nil {
			kind = nm.Obj().Name()
		}
		construct := o.next(fn(f) + "|*" + kind + " success")
		var dirty *ssa.Store
		var calc *ssa.Call
		var childStore *ssa.Store
		engine.Instrs(f, func(in ssa.Instruction) {
			switch x := in.(type) {
			case *ssa.Store:
				addr := x.Addr
				if ia, ok := addr.(*ssa.IndexAddr); ok {
					addr = ia.X
				}
				fa, ok := addr.(*ssa.FieldAddr)
				if !ok || fa.X != obj {
					return
				}
				switch engine.FieldOf(fa).Name() {
				case "dirty":
					if c := constVal(x.Val); c != nil && c.ExactString() == "true" && engine.InstrDominates(x, ret) {
						dirty = x
					}
				case "Children", "value":
					if ex, ok := x.Val.(*ssa.Extract); ok && ex.Index == 0 {
						if c, ok := ex.Tuple.(*ssa.Call); ok && c.Call.StaticCallee() == f && engine.InstrDominates(x, ret) {
							childStore = x
						}
					}
				}
			case *ssa.Call:
				if recv, ok := engine.IsMethodCall(x, "CalcHash"); ok && recv == obj && engine.InstrDominates(x, ret) {
					calc = x
				}
			}
		})
		good := dirty != nil && calc != nil && engine.InstrDominates(dirty, calc)
		detail := fmt.Sprintf("dirty=true stored=%v, CalcHash called=%v", dirty != nil, calc != nil)
		if kind != "valueNode" {
			good = good && childStore != nil && engine.InstrDominates(childStore, calc)
			detail += fmt.Sprintf(", verified child stored before hashing=%v", childStore != nil)
		}
		r.Check(good, rule, construct, r.P.Pos(ret.Pos()), "child stored, dirty set, hash recomputed, then returned",
			"the node is returned without its hash being recomputed from the verified child ("+detail+"): the hash claimed on the wire would be accepted as the root")
	}
	if n < 3 {
		r.Anchor(rule, fmt.Errorf("unresolved anchor: %d success arms in verifyProof, 3 confirmed by reading", n))
	}
	// VerifyBlockProof returns Hash() of the verified node
	v := r.Fn(rule, pkgWMPT, "WeightedMerkleTrie", "VerifyBlockProof")
	if v == nil {
		return
	}
	var vp *ssa.Call
	engine.Instrs(v, func(in ssa.Instruction) {
		if c, ok := in.(*ssa.Call); ok && c.Call.StaticCallee() == f {
			vp = c
		}
	})
	good := false
	if vp != nil {
		var node ssa.Value
		for _, ref := range engine.Referrers(vp) {
			if ex, ok := ref.(*ssa.Extract); ok && ex.Index == 0 {
				node = ex
			}
		}
		// the returned hash is Hash() invoked on that node (possibly through t.root)
		engine.Instrs(v, func(in ssa.Instruction) {
			c, ok := in.(*ssa.Call)
			if !ok {
				return
			}
			if recv, ok := engine.IsMethodCall(c, "Hash"); ok {
				if recv == node {
					good = true
				}
				if ld, ok := recv.(*ssa.UnOp); ok {
					// t.root loaded after `t.root = node`
					if fld := engine.FieldOf(ld.X); fld != nil && fld.Name() == "root" {
						engine.Instrs(v, func(i2 ssa.Instruction) {
							if st, ok := i2.(*ssa.Store); ok && st.Val == node {
								if f2 := engine.FieldOf(st.Addr); f2 != nil && f2.Name() == "root" && engine.InstrDominates(st, c) {
									good = true
								}
							}
						})
					}
				}
			}
		})
	}
	r.Check(good, rule, fn(v)+"|returned hash", r.P.Pos(v.Pos()), "the returned hash is Hash() of the node verifyProof rebuilt", "VerifyBlockProof does not return the recomputed hash of the verified root node")
}

func domRangeVerify(r *engine.Run, f *ssa.Function) {
	const rule = "DOM-range"
	rangeGuards(r, rule, f, func(c *ssa.Call) bool { return c.Call.StaticCallee() == f })
	blockParam := paramRole(f, "block")
	// value and short arms
	for _, ret := range engine.Returns(f) {
		if len(ret.Results) != 3 || !nilConst(ret.Results[2]) {
			continue
		}
		mi, ok := ret.Results[0].(*ssa.MakeInterface)
		if !ok {
			continue
		}
		nm := namedOf(mi.X.Type())
		if nm == nil || (nm.Obj().Name() != "valueNode" && nm.Obj().Name() != "shortNode") {
			continue
		}
		facts, ok := engine.FactsOn(f, ret.Block())
		good := false
		if ok {
			for _, ft := range facts {
				if ft.Kind == "lt" && !ft.Truth && ft.B == blockParam && weightCallOn(ft.A, func(v ssa.Value) bool { return v == mi.X }) {
					good = true
				}
			}
		}
		r.Check(good, rule, fn(f)+"|*"+nm.Obj().Name()+" range", r.P.Pos(ret.Pos()), "success only with block > node.Weight() false", "the arm succeeds without checking that the block number lies within the node's weight: a proof for a block outside the node's interval verifies")
	}
	// exhaustion -> ErrWeightNotInRange
	found := false
	for _, ret := range engine.Returns(f) {
		if len(ret.Results) == 3 && globalErrName(ret.Results[2]) == "ErrWeightNotInRange" && (strings.HasPrefix(ret.Block().Comment, "for.done") || strings.HasSuffix(ret.Block().Comment, ".done")) {
			found = true
		}
	}
	r.Check(found, rule, fn(f)+"|exhaustion", r.P.Pos(f.Pos()), "children exhausted -> ErrWeightNotInRange", "when no child's interval contains the block the branch arm does not report ErrWeightNotInRange")
}

func agreeBind(r *engine.Run, f *ssa.Function) {
	const rule = "AGREE-bind"
	// what the verifier reads from children of a branch
	read := map[string]bool{}
	engine.Instrs(f, func(in ssa.Instruction) {
		c, ok := in.(ssa.CallInstruction)
		if !ok || !c.Common().IsInvoke() {
			return
		}
		ld, ok := c.Common().Value.(*ssa.UnOp)
		if !ok {
			return
		}
		if ia, ok := ld.X.(*ssa.IndexAddr); ok {
			if fld := engine.FieldOf(ia.X); fld != nil && fld.Name() == "Children" {
				read[c.Common().Method.Name()] = true
			}
		}
	})
	// what routingNode.CalcHash commits to per child
	calc := r.Fn(rule, pkgWMPT, "routingNode", "CalcHash")
	if calc == nil {
		return
	}
	var raw *ssa.Call
	engine.Instrs(calc, func(in ssa.Instruction) {
		if c, ok := in.(*ssa.Call); ok && extCalleeIs(c, "core/encryption", "", "RawHash") {
			raw = c
		}
	})
	if raw == nil {
		r.Anchor(rule, fmt.Errorf("unresolved anchor: RawHash in routingNode.CalcHash"))
		return
	}
	committed := map[string]bool{}
	engine.Instrs(calc, func(in ssa.Instruction) {
		c, ok := in.(*ssa.Call)
		if !ok || !c.Call.IsInvoke() || !isNamed(c.Call.Value.Type(), pkgWMPT, "Node") {
			return
		}
		if dependsOn(raw.Call.Args[0], c) {
			committed[c.Call.Method.Name()] = true
		}
	})
	var names []string
	for m := range read {
		names = append(names, m)
	}
	sort.Strings(names)
	if len(names) == 0 {
		r.Anchor(rule, fmt.Errorf("unresolved anchor: child accessors read by verifyProof"))
	}
	for _, m := range names {
		ok := committed[m]
		if m == "Weight" && committed["Weight"] {
			ok = true
		}
		r.Check(ok, rule, "wmpt.(*routingNode).CalcHash|child."+m, r.P.Pos(calc.Pos()),
			"child."+m+"() is part of the branch pre-image",
			"verifyProof navigates by each child's claimed "+m+"() but the branch hash commits only to "+keys(committed)+" per child (plus the sum of weights): claimed child weights can be redistributed without changing the hash, so a re-weighted proof verifies to the trusted root with another owner's value")
	}
	// value node: weight and value in the pre-image
	vc := r.Fn(rule, pkgWMPT, "valueNode", "CalcHash")
	if vc != nil {
		var vraw *ssa.Call
		engine.Instrs(vc, func(in ssa.Instruction) {
			if c, ok := in.(*ssa.Call); ok && extCalleeIs(c, "core/encryption", "", "RawHash") {
				vraw = c
			}
		})
		got := map[string]bool{}
		if vraw != nil {
			engine.Instrs(vc, func(in ssa.Instruction) {
				if ld, ok := in.(*ssa.UnOp); ok {
					if fld := engine.FieldOf(ld.X); fld != nil && dependsOn(vraw.Call.Args[0], ld) {
						got[fld.Name()] = true
					}
				}
			})
		}
		r.Check(got["weight"] && got["value"], rule, "wmpt.(*valueNode).CalcHash|weight+value", r.P.Pos(vc.Pos()), "value node hash commits to weight and value", "the value node hash does not commit to both weight and value (pre-image has "+keys(got)+")")
	}
	// short node: key and child hash
	sc := r.Fn(rule, pkgWMPT, "shortNode", "CalcHash")
	if sc != nil {
		var sraw *ssa.Call
		engine.Instrs(sc, func(in ssa.Instruction) {
			if c, ok := in.(*ssa.Call); ok && extCalleeIs(c, "core/encryption", "", "RawHash") {
				sraw = c
			}
		})
		keyIn, childIn := false, false
		if sraw != nil {
			engine.Instrs(sc, func(in ssa.Instruction) {
				switch x := in.(type) {
				case *ssa.UnOp:
					if fld := engine.FieldOf(x.X); fld != nil && fld.Name() == "key" && dependsOn(sraw.Call.Args[0], x) {
						keyIn = true
					}
				case *ssa.Call:
					if x.Call.IsInvoke() && x.Call.Method.Name() == "CalcHash" && dependsOn(sraw.Call.Args[0], x) {
						childIn = true
					}
				}
			})
		}
		r.Check(keyIn && childIn, rule, "wmpt.(*shortNode).CalcHash|key+child", r.P.Pos(sc.Pos()), "shared-prefix node hash commits to its key and its child's hash (the child's range is re-checked below it)", "the shared-prefix node hash does not commit to key and child hash")
	}
}

func keys(m map[string]bool) string {
	var s []string
	for k := range m {
		s = append(s, k)
	}
	sort.Strings(s)
	return "{" + strings.Join(s, ", ") + "}"
}

// agreeDomain: kind-specific constant tag at the start of every pre-image.
func agreeDomain(r *engine.Run) {
	const rule = "AGREE-domain"
	tags := map[string]string{}
	for _, kind := range []string{"routingNode", "shortNode", "valueNode"} {
		f := r.Fn(rule, pkgWMPT, kind, "CalcHash")
		if f == nil {
			return
		}
		// the first value appended to the pre-image buffer
		var first ssa.Instruction
		engine.Instrs(f, func(in ssa.Instruction) {
			if first != nil {
				return
			}
			c, ok := in.(*ssa.Call)
			if !ok {
				return
			}
			if b, ok := c.Call.Value.(*ssa.Builtin); ok && b.Name() == "append" && isByteSlice(c.Type()) {
				first = in
			}
			if sc := c.Call.StaticCallee(); sc != nil && (sc.Name() == "AppendUint64" || sc.Name() == "AppendUint32") {
				first = in
			}
		})
		tag := ""
		if c, ok := first.(*ssa.Call); ok {
			if b, ok := c.Call.Value.(*ssa.Builtin); ok && b.Name() == "append" {
				// append(m, <constant bytes>...)
				if sl, ok := c.Call.Args[1].(*ssa.Slice); ok {
					if al, ok := sl.X.(*ssa.Alloc); ok {
						var vals []string
						for _, ref := range engine.Referrers(al) {
							if ia, ok := ref.(*ssa.IndexAddr); ok {
								for _, r2 := range engine.Referrers(ia) {
									if st, ok := r2.(*ssa.Store); ok {
										if cv := constVal(st.Val); cv != nil {
											vals = append(vals, cv.ExactString())
										} else {
											vals = append(vals, "?")
										}
									}
								}
							}
						}
						if len(vals) > 0 && !strings.Contains(strings.Join(vals, ","), "?") {
							tag = strings.Join(vals, ",")
						}
					}
				}
				if cv := constVal(c.Call.Args[1]); cv != nil {
					tag = cv.ExactString()
				}
			}
		}
		tags[kind] = tag
	}
	distinct := tags["routingNode"] != "" && tags["shortNode"] != "" && tags["valueNode"] != "" &&
		tags["routingNode"] != tags["shortNode"] && tags["routingNode"] != tags["valueNode"] && tags["shortNode"] != tags["valueNode"]
	r.Check(distinct, rule, "wmpt.CalcHash|kind tag", "core/util/wmpt/node.go:0", fmt.Sprintf("distinct constant tags %v", tags),
		fmt.Sprintf("the pre-images of branch, shared-prefix and value nodes do not start with distinct constant tags (%v): a value node with weight w and value = the 16 child hashes of a branch of weight w has that branch's hash, so a one-element proof presenting the root branch as a value verifies to the trusted root", tags))
}

// orderHashFresh: what a node serialises is computed from current hashes. The
// Serialize method of each hashed node kind reads cached hashes (its own hash
// field, its children's Hash()); every such read is reached only on paths where
// the receiver's dirty flag tested false or CalcHash() was called on the
// receiver (which re-hashes the dirty part of the subtree). GetBlockProof and
// GetPath serialise nodes of a trie that may have been updated since the last
// Root()/Commit: a stale sibling hash in a proof verifies to a hash that is not
// the trie's root.
func orderHashFresh(r *engine.Run, rule string) {
	n := 0
	for _, kind := range []string{"routingNode", "shortNode", "valueNode"} {
		f := r.Fn(rule, pkgWMPT, kind, "Serialize")
		if f == nil {
			continue
		}
		recv := f.Params[0]
		fresh := map[*ssa.BasicBlock]bool{}
		var dirtyKeys []string
		engine.Instrs(f, func(in ssa.Instruction) {
			if c, ok := in.(*ssa.Call); ok {
				if rv, is := engine.IsMethodCall(c, "CalcHash"); is && rv == ssa.Value(recv) {
					fresh[c.Block()] = true
				}
			}
			if ld, ok := in.(*ssa.UnOp); ok && ld.Op == token.MUL {
				if fa, ok := ld.X.(*ssa.FieldAddr); ok && fa.X == ssa.Value(recv) && engine.FieldOf(fa).Name() == "dirty" {
					dirtyKeys = append(dirtyKeys, engine.ValKey(ld))
				}
			}
		})
		o := ord{}
		engine.Instrs(f, func(in ssa.Instruction) {
			what := ""
			switch x := in.(type) {
			case *ssa.UnOp:
				if fa, ok := x.X.(*ssa.FieldAddr); ok && x.Op == token.MUL && fa.X == ssa.Value(recv) && engine.FieldOf(fa).Name() == "hash" {
					what = "own hash field"
				}
			case *ssa.Call:
				if _, is := engine.IsMethodCall(x, "Hash"); is {
					what = "Hash() of a child"
				}
			}
			if what == "" {
				return
			}
			n++
			good := false
			detail := ""
			if fresh[in.Block()] {
				// the CalcHash call must precede the read inside the block
				for _, i2 := range in.Block().Instrs {
					if i2 == in {
						break
					}
					if c, ok := i2.(*ssa.Call); ok {
						if rv, is := engine.IsMethodCall(c, "CalcHash"); is && rv == ssa.Value(recv) {
							good = true
						}
					}
				}
			}
			if !good {
				paths, ok := engine.PathFactsAvoid(f, in.Block(), fresh, 4096)
				if !ok {
					r.Undec(rule, o.next(fn(f)+"|"+what), r.P.Pos(in.Pos()), "too many paths")
					return
				}
				good = true
				for _, p := range paths {
					clean := false
					for _, k := range dirtyKeys {
						if v, had := p[k]; had && !v {
							clean = true
						}
					}
					if !clean {
						good = false
						detail = "a path reaches the read with the receiver possibly dirty and no CalcHash()"
					}
				}
			}
			if !good {
				// accepted alternative: every caller re-hashes before serialising
				if bad := staleSerializeCallers(r); len(bad) == 0 {
					good = true
				} else {
					detail += "; and Serialize is called without a preceding CalcHash() on the same node at " + strings.Join(bad, ", ")
				}
			}
			r.Check(good, rule, o.next(fn(f)+"|"+what), r.P.Pos(in.Pos()), "read only after the receiver tested not dirty or was re-hashed (in Serialize itself or at every call site)",
				"the serialised form reads a cached hash that may be stale ("+detail+"): a proof or an exported path built after an update and before the next Root()/Commit carries an old sibling hash and verifies to a hash that is not the trie's root")
		})
	}
	if n < 4 {
		r.Anchor(rule, fmt.Errorf("unresolved anchor: %d cached-hash reads found in the Serialize methods", n))
	}
}

// staleSerializeCallers: call sites of Serialize in the weighted trie that are
// not dominated by CalcHash() on the same node value.
func staleSerializeCallers(r *engine.Run) []string {
	var bad []string
	for _, g := range funcsOfPkg(r, pkgWMPT) {
		engine.Instrs(g, func(in ssa.Instruction) {
			c, ok := in.(*ssa.Call)
			if !ok {
				return
			}
			rv, is := engine.IsMethodCall(c, "Serialize")
			if !is {
				return
			}
			fresh := false
			engine.Instrs(g, func(i2 ssa.Instruction) {
				c2, ok := i2.(*ssa.Call)
				if !ok {
					return
				}
				if rv2, is := engine.IsMethodCall(c2, "CalcHash"); is && (rv2 == rv || engine.ValKey(rv2) == engine.ValKey(rv)) && engine.InstrDominates(c2, c) {
					fresh = true
				}
			})
			if !fresh {
				bad = append(bad, r.P.Pos(c.Pos()))
			}
		})
	}
	sort.Strings(bad)
	return bad
}
