package rules

import (
	"fmt"
	"go/token"
	"go/types"
	"strings"

	"golang.org/x/tools/go/ssa"

	"verif/sa/engine"
)

// iterValueMask: in iterate the value a branch carries is handed to the handler
// under the value-node bit of the mask alone. A report that is also conditioned
// on the branch bit drops the entries stored at paths that are prefixes of other
// paths from every values-only iteration, while lookups still find them.
func iterValueMask(r *engine.Run, rule string) {
	f := r.Fn(rule, pkgUtil, "MerklePatriciaTrie", "iterate")
	if f == nil {
		return
	}
	n := 0
	o := ord{}
	engine.Instrs(f, func(in ssa.Instruction) {
		c, ok := in.(*ssa.Call)
		if !ok || c.Call.IsInvoke() || c.Call.StaticCallee() != nil || len(c.Call.Args) != 4 {
			return
		}
		// handler(ctx, path, key, node) with node = the Value field of a branch
		nd := through(c.Call.Args[3])
		ld, ok := nd.(*ssa.UnOp)
		if !ok {
			return
		}
		fa, ok := ld.X.(*ssa.FieldAddr)
		if !ok || engine.FieldOf(fa).Name() != "Value" || !isNamedPtr(fa.X.Type(), "FullNode") {
			return
		}
		n++
		bad := ""
		if facts, ok := engine.FactsOn(f, c.Block()); ok {
			for _, ft := range facts {
				if ft.Kind != "bool" || !ft.Truth {
					continue
				}
				mc, ok := ft.A.(*ssa.Call)
				if !ok {
					continue
				}
				sc := mc.Call.StaticCallee()
				if sc == nil || sc.Name() != "IncludesNodeType" || len(mc.Call.Args) != 2 {
					continue
				}
				k := constVal(mc.Call.Args[1])
				vk := namedConst(r, pkgUtil, "NodeTypeValueNode")
				if k == nil || vk == nil || k.ExactString() != vk.ExactString() {
					bad = "mask bit " + mc.Call.Args[1].String() + " at " + r.P.Pos(mc.Pos())
				}
			}
		}
		r.Check(bad == "", rule, o.next(fn(f)+"|branch value reported"), r.P.Pos(c.Pos()), "the value of a branch is reported under the value-node bit alone",
			"the value a branch carries is handed to the iteration handler only when another bit of the mask is set as well ("+bad+"): an iteration that asks for values only loses the entries stored at paths that are prefixes of other paths (and at the empty path), although lookups return them")
	})
	if n < 1 {
		r.Anchor(rule, fmt.Errorf("unresolved anchor: report of a branch value in iterate"))
	}
}

func namedConst(r *engine.Run, rel, name string) interface{ ExactString() string } {
	pk := r.P.SSAPkgs[engine.RepoMod+"/"+rel]
	if pk == nil {
		return nil
	}
	if c, ok := pk.Members[name].(*ssa.NamedConst); ok && c.Value != nil && c.Value.Value != nil {
		return c.Value.Value
	}
	return nil
}

// wholeValue: the stored value of an entry is an opaque byte string: its decoder
// keeps all of it whatever it starts with. A decoder that looks at the content
// (a leading MessagePack nil code taken for "no value") loses entries whose
// value happens to start that way - the node cache re-decodes every node it
// stores, so lookups answer "not present" for a live path.
func wholeValue(r *engine.Run, rule string) {
	f := r.Fn(rule, pkgUtil, "SecureSerializableValue", "UnmarshalMsg")
	if f == nil {
		return
	}
	bad := ""
	n := 0
	for _, b := range f.Blocks {
		if iff, ok := b.Instrs[len(b.Instrs)-1].(*ssa.If); ok {
			n++
			// a branch on the length is fine; a branch on the bytes is not
			if !hasLen(iff.Cond, 0) {
				if bo, ok := iff.Cond.(*ssa.BinOp); !ok || !(hasLen(bo.X, 0) || hasLen(bo.Y, 0)) {
					bad = r.P.Pos(iff.Cond.Pos())
				}
			}
		}
	}
	stored := false
	engine.Instrs(f, func(in ssa.Instruction) {
		if st, ok := in.(*ssa.Store); ok {
			if fld := engine.FieldOf(st.Addr); fld != nil && fld.Name() == "Buffer" {
				stored = true
			}
		}
	})
	r.Check(bad == "" && stored, rule, fn(f)+"|whole input kept", r.P.Pos(f.Pos()), "the decoder keeps its input without looking at the bytes",
		"the value decoder branches on the content of the bytes ("+bad+") or does not keep them: a value that happens to start with the tested code is decoded as empty, and since every cached node is a re-decoded copy, lookups, iteration and delete treat the live entry as absent")
}

// pureExport: taking a path export reads the trie. collectNodes replaces what it
// does not send by a hash reference in the EXPORT (a local), never in the trie: a
// subtree dropped from the live trie exists nowhere else while changes are
// uncommitted (or there is no storage), and every block below it loses its proof.
func pureExport(r *engine.Run, rule string) {
	f := wfn(r, rule, "collectNodes")
	if f == nil {
		return
	}
	bad := ""
	n := 0
	for _, g := range opGroup(r, f) {
		engine.Instrs(g, func(in ssa.Instruction) {
			st, ok := in.(*ssa.Store)
			if !ok {
				return
			}
			n++
			switch a := st.Addr.(type) {
			case *ssa.IndexAddr:
				if fa, ok := a.X.(*ssa.FieldAddr); ok && engine.FieldOf(fa).Name() == "Children" {
					if _, isAlloc := fa.X.(*ssa.Alloc); !isAlloc {
						bad = r.P.Pos(st.Pos())
					}
				}
			case *ssa.FieldAddr:
				name := engine.FieldOf(a).Name()
				if (name == "value" || name == "Children") && !isFreshAlloc(a.X) {
					bad = r.P.Pos(st.Pos())
				}
			}
		})
	}
	r.Check(bad == "", rule, fn(f)+"|trie not rewritten", r.P.Pos(f.Pos()), "the collection stores into no child slot or value link of an existing node",
		"collecting a path export rewrites the live trie ("+bad+"): a subtree replaced by its hash in place is gone when the changes were not committed yet (or the trie has no storage) - the root and weight still look right, but no block below it can be proven any more")
	_ = n
}

func isFreshAlloc(v ssa.Value) bool {
	_, ok := v.(*ssa.Alloc)
	return ok
}

// whoCheckpoint: the checkpoint (oldRoot) is written by SaveRoot alone. A
// rollback that clears it "with the other per-checkpoint state" makes a second
// rollback to the same checkpoint go to the empty trie.
func whoCheckpoint(r *engine.Run, rule string) {
	n := 0
	for _, f := range funcsOfPkg(r, pkgWMPT) {
		if len(f.Blocks) == 0 {
			continue
		}
		top := engine.TopFunc(f)
		engine.Instrs(f, func(in ssa.Instruction) {
			st, ok := in.(*ssa.Store)
			if !ok || !strings.Contains(engine.AddrPath(st.Addr), "oldRoot") {
				return
			}
			n++
			r.Check(top.Name() == "SaveRoot", rule, fn(f)+"|writes the checkpoint", r.P.Pos(st.Pos()), "the checkpoint is written by SaveRoot",
				"the checkpoint is written outside SaveRoot: a rollback that resets it makes the next rollback to the same checkpoint (no SaveRoot in between) install the empty trie although storage holds the checkpoint state")
		})
	}
	if n < 2 {
		r.Anchor(rule, fmt.Errorf("unresolved anchor: %d stores into the checkpoint", n))
	}
}

// sharedLoopVar: a goroutine literal started inside a loop reads no variable of
// the enclosing function that the loop itself rewrites (the loop variable under
// the module's pre-1.22 semantics, a cursor): by the time the goroutine runs the
// variable has moved on - keys are skipped or read past the end.
func sharedLoopVar(r *engine.Run, rule string, rel string, minimum int) {
	n := 0
	for _, f := range funcsOfPkg(r, rel) {
		if len(f.Blocks) == 0 {
			continue
		}
		o := ord{}
		engine.Instrs(f, func(in ssa.Instruction) {
			var lit *ssa.MakeClosure
			switch x := in.(type) {
			case *ssa.Go:
				if mc, ok := x.Call.Value.(*ssa.MakeClosure); ok {
					lit = mc
				}
			case *ssa.Call:
				if extCalleeIs(x, "golang.org/x/sync/errgroup", "Group", "Go") && len(x.Call.Args) == 2 {
					if mc, ok := x.Call.Args[1].(*ssa.MakeClosure); ok {
						lit = mc
					}
				}
			}
			if lit == nil || !inCycle(in.Block()) {
				return
			}
			n++
			bad := ""
			for _, b := range lit.Bindings {
				al, ok := b.(*ssa.Alloc)
				if !ok || inCycle(al.Block()) {
					continue // a per-iteration variable
				}
				// allocated once, before the loop: is it stored to inside the loop?
				for _, ref := range engine.Referrers(al) {
					if st, ok := ref.(*ssa.Store); ok && st.Addr == ssa.Value(al) && inCycle(st.Block()) {
						if _, isBasic := al.Type().(*types.Pointer).Elem().Underlying().(*types.Basic); isBasic {
							bad = al.Comment + " at " + r.P.Pos(st.Pos())
						}
					}
				}
			}
			r.Check(bad == "", rule, o.next(fn(f)+"|goroutine reads loop state"), r.P.Pos(in.Pos()), "the goroutine literal captures no variable that the loop rewrites",
				"a goroutine started in a loop captures a variable the loop itself rewrites ("+bad+"; the module's language version gives one variable per loop, not per iteration): when the goroutine runs the variable has moved on, so requested keys are skipped - or the index is past the end and the collection panics")
		})
	}
	if n < minimum {
		r.Anchor(rule, fmt.Errorf("unresolved anchor: %d goroutine literals started in loops in %s", n, rel))
	}
}

// valueStores: the state cache answers lookups from ONE structure, the per-key
// versions map (plus the hash links). A second container of values kept beside
// it (an overlay of "the tip's" writes, say) is a second source of answers with
// its own invalidation rule - forks committed in another order than expected
// leak a sibling's write through it.
func valueStores(r *engine.Run, rule string) {
	n, err := r.P.Type(pkgSC, "StateCache")
	if err != nil {
		r.Anchor(rule, fmt.Errorf("unresolved anchor: type StateCache"))
		return
	}
	st, ok := n.Underlying().(*types.Struct)
	if !ok {
		return
	}
	bad := ""
	cnt := 0
	for i := 0; i < st.NumFields(); i++ {
		fd := st.Field(i)
		ts := fd.Type().String()
		holds := strings.Contains(ts, "valueNode") || strings.Contains(ts, "statecache.Value") || strings.Contains(ts, "lru.Cache")
		if !holds {
			continue
		}
		cnt++
		if fd.Name() != "cache" && fd.Name() != "hashCache" {
			bad = fd.Name() + " " + ts
		}
	}
	r.Check(bad == "" && cnt >= 2, rule, "statecache.StateCache|value-holding fields", "core/statecache/statecache.go", "the only containers of cached values are the key->versions map and the hash links",
		"the state cache keeps a second container of values ("+bad+") beside the per-key versions map: lookups answered from it follow its own invalidation rule instead of the block tree - a sibling fork's write leaks into another fork's tip")
}

var _ = token.ADD
