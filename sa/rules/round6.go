package rules

import (
	"fmt"
	"go/token"
	"go/types"
	"strings"

	"golang.org/x/tools/go/ssa"

	"verif/sa/engine"
)

// depWholeInput: every hash of the library (node hashes of both tries, the
// Merkle tree's MHash, Hash) ends in encryption.RawHash. The proofs and the
// hash-addressed stores rely on the digest depending on every byte handed in:
// a RawHash that hashes a bounded copy of its argument makes two inputs that
// differ only past the bound collide, so a Merkle path verifies for another leaf
// hash and two different nodes share a key.
//
// Rule: every byte slice RawHash writes into the hasher is a whole view of the
// type-asserted argument: the asserted []byte itself, a []byte(string)
// conversion of it, a full slice x[:] (or x[:len(x)]) of the asserted array, or
// an append of all of it onto an empty slice. Anything else (a copy into a
// fixed buffer, a sub-slice, another value) is reported.
func depWholeInput(r *engine.Run, rule string) {
	f := r.Fn(rule, "core/encryption", "", "RawHash")
	if f == nil {
		return
	}
	if len(f.Params) != 1 {
		r.Anchor(rule, fmt.Errorf("unresolved anchor: RawHash has %d parameters", len(f.Params)))
		return
	}
	var data ssa.Value = f.Params[0]
	asserted := func(v ssa.Value) bool {
		switch x := v.(type) {
		case *ssa.TypeAssert:
			return x.X == data
		case *ssa.Extract:
			if ta, ok := x.Tuple.(*ssa.TypeAssert); ok && x.Index == 0 {
				return ta.X == data
			}
		}
		return false
	}
	var whole func(v ssa.Value, depth int) (bool, string)
	whole = func(v ssa.Value, depth int) (bool, string) {
		if depth > 6 {
			return false, "value too deep to follow"
		}
		if asserted(v) {
			return true, ""
		}
		switch x := v.(type) {
		case *ssa.Phi:
			for _, e := range x.Edges {
				if ok, why := whole(e, depth+1); !ok {
					return false, why
				}
			}
			return true, ""
		case *ssa.Convert:
			return whole(x.X, depth+1)
		case *ssa.ChangeType:
			return whole(x.X, depth+1)
		case *ssa.UnOp: // load of a local that holds the asserted value
			if x.Op == token.MUL {
				if a, ok := x.X.(*ssa.Alloc); ok {
					return allocHoldsOnly(a, func(s ssa.Value) bool { ok, _ := whole(s, depth+1); return ok }), "local holds something else than the argument"
				}
			}
		case *ssa.Slice:
			if x.Low != nil {
				if k, ok := intConst(x.Low); !ok || k != 0 {
					return false, "sub-slice with a lower bound"
				}
			}
			if k, isK := intConst(x.High); x.High != nil && isK && arrayLen(x.X.Type()) == k {
				// x[:len(x)] of an array: the length is a constant
			} else if x.High != nil {
				c, ok := x.High.(*ssa.Call)
				if !ok {
					return false, "sub-slice with an upper bound that is not len of the sliced value"
				}
				if b, isB := c.Call.Value.(*ssa.Builtin); !isB || b.Name() != "len" || engine.ValKey(c.Call.Args[0]) != engine.ValKey(x.X) {
					return false, "sub-slice with an upper bound that is not len of the sliced value"
				}
			}
			if a, ok := x.X.(*ssa.Alloc); ok {
				if allocHoldsOnly(a, asserted) {
					return true, ""
				}
				return false, "slice of a local buffer that is not the argument itself"
			}
			return whole(x.X, depth+1)
		case *ssa.Call:
			if b, ok := x.Call.Value.(*ssa.Builtin); ok && b.Name() == "append" && len(x.Call.Args) == 2 {
				base := x.Call.Args[0]
				empty := false
				switch bb := stripConv(base).(type) {
				case *ssa.Const:
					empty = bb.Value == nil
				case *ssa.MakeSlice:
					if k, ok := intConst(bb.Len); ok && k == 0 {
						empty = true
					}
				}
				if !empty {
					return false, "append onto a non-empty slice"
				}
				return whole(x.Call.Args[1], depth+1)
			}
		}
		return false, "not a view of the whole argument"
	}
	// the type switch may live in a helper that is handed the argument and returns the bytes:
	// its returns are judged with its parameter standing for the argument
	inner := whole
	whole = func(v ssa.Value, depth int) (bool, string) {
		if c, ok := v.(*ssa.Call); ok {
			if h := c.Call.StaticCallee(); h != nil && h.Pkg == f.Pkg && len(h.Blocks) > 0 && depth < 2 {
				for i, a := range c.Call.Args {
					if a == ssa.Value(data) && i < len(h.Params) {
						r.Touch(h)
						saved := data
						data = h.Params[i]
						res, why := true, ""
						for _, ret := range engine.Returns(h) {
							if len(ret.Results) != 1 {
								res, why = false, "helper with several results"
								break
							}
							if ok2, w := inner(resultValue(ret, 0), depth+1); !ok2 {
								res, why = false, w+" (in "+fn(h)+")"
								break
							}
						}
						data = saved
						return res, why
					}
				}
			}
		}
		return inner(v, depth)
	}
	n := 0
	o := ord{}
	engine.Instrs(f, func(in ssa.Instruction) {
		c, ok := in.(ssa.CallInstruction)
		if !ok {
			return
		}
		cc := c.Common()
		var arg ssa.Value
		switch {
		case cc.IsInvoke() && cc.Method != nil && cc.Method.Name() == "Write" && len(cc.Args) == 1:
			arg = cc.Args[0]
		case cc.IsInvoke() && cc.Method != nil && cc.Method.Name() == "WriteString" && len(cc.Args) == 1:
			arg = cc.Args[0]
		case extCalleeIs(c, "io", "", "WriteString") && len(cc.Args) == 2:
			arg = cc.Args[1]
		default:
			return
		}
		n++
		ok2, why := whole(arg, 0)
		r.Check(ok2, rule, o.next(fn(f)+"|hashed bytes"), r.P.Pos(c.Pos()), "the bytes written into the hasher are the whole argument",
			"RawHash does not hash its whole argument ("+why+"): two inputs that differ only in the part left out get the same digest, so a Merkle path verifies for a different leaf hash and two different nodes share one key")
	})
	if n < 1 {
		r.Anchor(rule, fmt.Errorf("unresolved anchor: no write into the hasher found in RawHash"))
	}
}

// allocHoldsOnly: every store into the local a stores a value accepted by ok
// (and there is at least one).
func allocHoldsOnly(a *ssa.Alloc, ok func(ssa.Value) bool) bool {
	n := 0
	for _, ref := range engine.Referrers(a) {
		if st, isSt := ref.(*ssa.Store); isSt && st.Addr == a {
			n++
			if !ok(st.Val) {
				return false
			}
		}
	}
	return n > 0
}

// agreeRange: the prover hands out, for a tree of n leaves, paths of pl elements
// with 2^(pl-1) < n <= 2^pl (pl = 1 for n = 1) and leaf positions 0 .. n-1: the
// positions 0 .. 2^pl - 1 all occur. A range guard in the verifier that turns a
// position away before hashing has to leave all of them through.
//
// Rule (decided only for guards of a recognised form; other guards are not
// judged): a branch of VerifyMerklePath that leads to a constant false verdict
// on a comparison of the path's leaf index with E is sound only if
// E = (1 << pl) + k rejects nothing below 2^pl (idx >= E needs k >= 0, idx > E
// needs k >= -1), and on a comparison with a constant c only if it rejects
// nothing at or above 0 (idx < c needs c <= 0, idx <= c needs c < 0).
func agreeRange(r *engine.Run, rule string, f *ssa.Function) {
	if f == nil {
		return
	}
	isIdx := func(v ssa.Value) bool {
		v = stripConv(v)
		_, fld, ok := loadOfField(v)
		return ok && fld == "LeafIndex"
	}
	isPl := func(v ssa.Value) bool {
		v = stripConv(v)
		c, ok := v.(*ssa.Call)
		if !ok {
			return false
		}
		b, isB := c.Call.Value.(*ssa.Builtin)
		if !isB || b.Name() != "len" {
			return false
		}
		_, fld, ok := loadOfField(stripConv(c.Call.Args[0]))
		return ok && fld == "Nodes"
	}
	// linear form coef*2^pl + k
	var linS func(v ssa.Value, depth int) (coef, k int64, ok bool)
	linS = func(v ssa.Value, depth int) (int64, int64, bool) {
		v = stripConv(v)
		if depth > 5 {
			return 0, 0, false
		}
		if c, ok := intConst(v); ok {
			return 0, c, true
		}
		if b, ok := v.(*ssa.BinOp); ok {
			switch b.Op {
			case token.SHL:
				if one, ok := intConst(b.X); ok && one == 1 && isPl(b.Y) {
					return 1, 0, true
				}
			case token.ADD, token.SUB:
				c1, k1, ok1 := linS(b.X, depth+1)
				c2, k2, ok2 := linS(b.Y, depth+1)
				if ok1 && ok2 {
					if b.Op == token.ADD {
						return c1 + c2, k1 + k2, true
					}
					return c1 - c2, k1 - k2, true
				}
			}
		}
		return 0, 0, false
	}
	// anchors: the verifier reads the index and the path length
	seenIdx, seenPl := false, false
	engine.Instrs(f, func(in ssa.Instruction) {
		if v, ok := in.(ssa.Value); ok {
			if isIdx(v) {
				seenIdx = true
			}
			if isPl(v) {
				seenPl = true
			}
		}
	})
	if !seenIdx || !seenPl {
		r.Anchor(rule, fmt.Errorf("unresolved anchor: leaf index / path length reads in %s (index %v, length %v)", fn(f), seenIdx, seenPl))
		return
	}
	// reject blocks: a return of constant false
	reject := map[*ssa.BasicBlock]bool{}
	for _, ret := range engine.Returns(f) {
		if len(ret.Results) != 1 {
			continue
		}
		if c, ok := ret.Results[0].(*ssa.Const); ok && c.Value != nil && c.Value.String() == "false" {
			reject[ret.Block()] = true
		}
	}
	o := ord{}
	judged := 0
	for _, b := range f.Blocks {
		if len(b.Instrs) == 0 {
			continue
		}
		iff, ok := b.Instrs[len(b.Instrs)-1].(*ssa.If)
		if !ok {
			continue
		}
		for k, s := range b.Succs {
			if !reject[s] {
				continue
			}
			cmp, ok := iff.Cond.(*ssa.BinOp)
			if !ok {
				continue
			}
			op := cmp.Op
			x, y := cmp.X, cmp.Y
			if k == 1 { // rejected when the comparison is false
				switch op {
				case token.LSS:
					op = token.GEQ
				case token.LEQ:
					op = token.GTR
				case token.GTR:
					op = token.LEQ
				case token.GEQ:
					op = token.LSS
				default:
					continue
				}
			}
			if !isIdx(x) && isIdx(y) { // E op idx  ->  idx op' E
				x, y = y, x
				switch op {
				case token.LSS:
					op = token.GTR
				case token.LEQ:
					op = token.GEQ
				case token.GTR:
					op = token.LSS
				case token.GEQ:
					op = token.LEQ
				}
			}
			if !isIdx(x) {
				continue
			}
			coef, kk, ok := linS(y, 0)
			if !ok {
				continue
			}
			good, what := true, ""
			switch {
			case coef == 1 && op == token.GEQ:
				good, what = kk >= 0, fmt.Sprintf("index >= 2^len(path) %+d", kk)
			case coef == 1 && op == token.GTR:
				good, what = kk >= -1, fmt.Sprintf("index > 2^len(path) %+d", kk)
			case coef == 0 && op == token.LSS:
				good, what = kk <= 0, fmt.Sprintf("index < %d", kk)
			case coef == 0 && op == token.LEQ:
				good, what = kk < 0, fmt.Sprintf("index <= %d", kk)
			default:
				continue
			}
			judged++
			r.Check(good, rule, o.next(fn(f)+"|range guard"), r.P.Pos(iff.Cond.Pos()), "the range guard ("+what+") turns away no position the prover hands out",
				"the verifier turns a path away unhashed when "+what+": a tree whose leaf count is a power of two has leaves at every position below 2^len(path), so the genuine path of such a leaf (produced by GetPath / GetPathByIndex) no longer verifies")
		}
	}
	r.OK(rule, fn(f)+"|anchors", r.P.Pos(f.Pos()), fmt.Sprintf("leaf index and path length reads found; range guards judged: %d (none needed: the verifier may hash every offered path)", judged))
}

// whoReorder: the snapshot GetLogs returns is ordered by write order alone (the
// ring is walked from the cursor). The entries carry a timestamp the writer took
// before it got the lock (or a caller-supplied one), so no function of the
// package sorts a slice of logged entries: "newest first" means written last.
func whoReorder(r *engine.Run, rule string) {
	isEntries := func(t types.Type) bool {
		sl, ok := t.Underlying().(*types.Slice)
		if !ok {
			return false
		}
		return strings.HasSuffix(strings.TrimPrefix(sl.Elem().String(), "*"), "observer.LoggedEntry")
	}
	n := 0
	for _, f := range funcsOfPkg(r, pkgLog) {
		if len(f.Blocks) == 0 {
			continue
		}
		fs := append([]*ssa.Function{f}, f.AnonFuncs...)
		for _, g := range fs {
			o := ord{}
			engine.Instrs(g, func(in ssa.Instruction) {
				if v, ok := in.(ssa.Value); ok && isEntries(v.Type()) {
					n++
				}
				c, ok := in.(ssa.CallInstruction)
				if !ok {
					return
				}
				sc := c.Common().StaticCallee()
				if sc == nil {
					return
				}
				var pkg *types.Package
				if sc.Pkg != nil {
					pkg = sc.Pkg.Pkg
				} else if sc.Object() != nil {
					pkg = sc.Object().Pkg()
				}
				if pkg == nil || (pkg.Path() != "sort" && pkg.Path() != "slices") {
					return
				}
				nm := sc.Name()
				if !(strings.Contains(nm, "Sort") || nm == "Slice" || nm == "SliceStable" || nm == "Stable") {
					return
				}
				for _, a := range c.Common().Args {
					if isEntries(through(a).Type()) {
						r.Check(false, rule, o.next(fn(f)+"|sort"), r.P.Pos(c.Pos()), "",
							"a slice of logged entries is sorted ("+pkg.Path()+"."+nm+"): the snapshot's order is then decided by a field of the entries (timestamps are taken before the write lock, or supplied by the caller) instead of the order the entries were written in, so an entry written later can come back behind an older one")
					}
				}
			})
		}
	}
	if n < 1 {
		r.Anchor(rule, fmt.Errorf("unresolved anchor: no slice of logged entries in core/logging"))
	}
	r.OK(rule, "core/logging|entry slices", "-", fmt.Sprintf("values of type []*LoggedEntry inspected: %d; none is handed to a sorting function", n))
}

// orderJoined: Commit's bookkeeping lists (created, tempDeleted, deleted) are
// filled by collector goroutines; ORDER-wait checks that Commit waits on the
// WaitGroup before it returns. That wait only covers a goroutine that is
// counted: every goroutine the weighted trie starts that writes trie state
// signals the WaitGroup (Done on every path to its return, or deferred), and the
// function that starts them adds exactly as many as it starts. A collector that
// is not joined appends after Commit returned - into lists a rollback has just
// reset, so the checkpoint's own root ends up in the collection set.
func orderJoined(r *engine.Run, rule string) {
	n := 0
	for _, f := range funcsOfPkg(r, pkgWMPT) {
		if len(f.Blocks) == 0 {
			continue
		}
		var gos []*ssa.Go
		added := int64(0)
		addKnown := true
		engine.Instrs(f, func(in ssa.Instruction) {
			switch x := in.(type) {
			case *ssa.Go:
				gos = append(gos, x)
			case *ssa.Call:
				if extCalleeIs(x, "sync", "WaitGroup", "Add") && len(x.Call.Args) == 2 {
					if k, ok := intConst(x.Call.Args[1]); ok {
						added += k
					} else {
						addKnown = false
					}
				}
			}
		})
		if len(gos) == 0 {
			continue
		}
		o := ord{}
		joined := 0
		usesWG := false
		for _, g := range gos {
			mc, ok := g.Call.Value.(*ssa.MakeClosure)
			if !ok {
				continue
			}
			body, _ := mc.Fn.(*ssa.Function)
			if body == nil || len(body.Blocks) == 0 {
				continue
			}
			writes := false
			var dones []ssa.Instruction
			deferred := false
			var writesState func(g *ssa.Function, depth int) bool
			writesState = func(g *ssa.Function, depth int) bool {
				w := false
				engine.Instrs(g, func(in ssa.Instruction) {
					switch x := in.(type) {
					case *ssa.Store:
						if _, local := engine.AddrRoot(x.Addr).(*ssa.Alloc); !local {
							w = true
						}
					case *ssa.MapUpdate:
						w = true
					case *ssa.Call:
						if b, ok := x.Call.Value.(*ssa.Builtin); ok && b.Name() == "delete" {
							w = true
						}
						// the bookkeeping may live in a trie method the goroutine calls
						if h := x.Call.StaticCallee(); h != nil && depth < 1 && h.Pkg == f.Pkg && len(h.Blocks) > 0 && h.Signature.Recv() != nil {
							if writesState(h, depth+1) {
								w = true
							}
						}
					}
				})
				return w
			}
			writes = writesState(body, 0)
			engine.Instrs(body, func(in ssa.Instruction) {
				switch x := in.(type) {
				case *ssa.Defer:
					if extCalleeIs(x, "sync", "WaitGroup", "Done") {
						deferred = true
					}
				case *ssa.Call:
					if extCalleeIs(x, "sync", "WaitGroup", "Done") {
						dones = append(dones, x)
					}
				}
			})
			if len(dones) > 0 || deferred {
				usesWG = true
			}
			if !writes {
				continue
			}
			n++
			good := deferred
			if !good && len(dones) > 0 {
				good = true
				for _, ret := range engine.Returns(body) {
					dom := false
					for _, d := range dones {
						if d.Block() == ret.Block() || d.Block().Dominates(ret.Block()) {
							dom = true
						}
					}
					if !dom {
						good = false
					}
				}
			}
			if good {
				joined++
			}
			r.Check(good, rule, o.next(fn(f)+"|goroutine"), r.P.Pos(g.Pos()), "the goroutine writes trie state and signals the WaitGroup on every path to its end",
				"a goroutine started by "+fn(f)+" writes the trie's bookkeeping but does not signal the WaitGroup the caller waits on: Commit returns while it is still appending, so the lists are incomplete for the caller and a rollback that follows resets them before the late entries arrive (the checkpoint's own hashes end up in the collection set)")
		}
		if usesWG && addKnown {
			r.Check(added == int64(len(gos)), rule, fn(f)+"|Add matches the goroutines started", r.P.Pos(f.Pos()), fmt.Sprintf("Add(%d) for %d goroutines", added, len(gos)),
				fmt.Sprintf("%s adds %d to the WaitGroup but starts %d goroutines: the wait ends (or never ends) with a collector still running", fn(f), added, len(gos)))
		}
		_ = joined
	}
	if n < 2 {
		r.Anchor(rule, fmt.Errorf("unresolved anchor: %d state-writing goroutines in the weighted trie (the two collectors of Commit expected)", n))
	}
}

// refPoolPut: a value handed back to a sync.Pool belongs to whoever gets it
// next; nothing may touch it afterwards (a Reset, Write or read after Put runs
// concurrently with the next user: hashes of other goroutines are computed from
// mixed state).
func refPoolPut(r *engine.Run, rule string) {
	puts := 0
	for _, f := range r.P.RepoCG().Funcs {
		if len(f.Blocks) == 0 {
			continue
		}
		o := ord{}
		engine.Instrs(f, func(in ssa.Instruction) {
			p, ok := in.(*ssa.Call)
			if !ok || !extCalleeIs(p, "sync", "Pool", "Put") || len(p.Call.Args) != 2 {
				return
			}
			puts++
			root := through(p.Call.Args[1])
			// aliases of the pooled object in this function
			alias := map[ssa.Value]bool{root: true}
			for changed := true; changed; {
				changed = false
				engine.Instrs(f, func(in2 ssa.Instruction) {
					v, ok := in2.(ssa.Value)
					if !ok || alias[v] {
						return
					}
					switch x := v.(type) {
					case *ssa.MakeInterface:
						if alias[x.X] {
							alias[v], changed = true, true
						}
					case *ssa.TypeAssert:
						if alias[x.X] {
							alias[v], changed = true, true
						}
					case *ssa.ChangeInterface:
						if alias[x.X] {
							alias[v], changed = true, true
						}
					case *ssa.Extract:
						if ta, ok := x.Tuple.(*ssa.TypeAssert); ok && x.Index == 0 && alias[ta.X] {
							alias[v], changed = true, true
						}
					}
				})
			}
			bad := ""
			for a := range alias {
				for _, ref := range engine.Referrers(a) {
					if ref == ssa.Instruction(p) {
						continue
					}
					if _, isVal := ref.(*ssa.MakeInterface); isVal {
						continue
					}
					if _, isDbg := ref.(*ssa.DebugRef); isDbg {
						continue
					}
					if engine.ReachableAfter(p, ref) {
						bad = r.P.Pos(ref.Pos())
					}
				}
			}
			r.Check(bad == "", rule, o.next(fn(f)+"|Put"), r.P.Pos(p.Pos()), "the pooled object is not touched after it was put back",
				"an object is used ("+bad+") after it was handed back to its sync.Pool: the next Get may already have given it to another goroutine, whose hash or buffer is then computed from mixed state")
		})
	}
	// a deferred Put runs before every defer registered EARLIER in the function
	// (last in, first out): an earlier `defer h.Reset()` touches the object after
	// it went back to the pool
	for _, f := range r.P.RepoCG().Funcs {
		if len(f.Blocks) == 0 {
			continue
		}
		o := ord{}
		engine.Instrs(f, func(in ssa.Instruction) {
			d, ok := in.(*ssa.Defer)
			if !ok || len(d.Call.Args) != 2 {
				return
			}
			sc := d.Call.StaticCallee()
			if sc == nil || sc.Name() != "Put" || sc.Signature.Recv() == nil || !strings.HasSuffix(sc.Signature.Recv().Type().String(), "sync.Pool") {
				return
			}
			puts++
			root := through(d.Call.Args[1])
			alias := map[ssa.Value]bool{root: true}
			for changed := true; changed; {
				changed = false
				engine.Instrs(f, func(in2 ssa.Instruction) {
					v, ok := in2.(ssa.Value)
					if !ok || alias[v] {
						return
					}
					switch x := v.(type) {
					case *ssa.MakeInterface:
						if alias[x.X] {
							alias[v], changed = true, true
						}
					case *ssa.TypeAssert:
						if alias[x.X] {
							alias[v], changed = true, true
						}
					case *ssa.ChangeInterface:
						if alias[x.X] {
							alias[v], changed = true, true
						}
					case *ssa.Extract:
						if ta, ok := x.Tuple.(*ssa.TypeAssert); ok && x.Index == 0 && alias[ta.X] {
							alias[v], changed = true, true
						}
					}
				})
			}
			bad := ""
			engine.Instrs(f, func(in2 ssa.Instruction) {
				d2, ok := in2.(*ssa.Defer)
				if !ok || d2 == d || !engine.ReachableAfter(d2, d) {
					return
				}
				uses := alias[d2.Call.Value]
				for _, a := range d2.Call.Args {
					if alias[a] {
						uses = true
					}
				}
				if uses {
					bad = r.P.Pos(d2.Pos())
				}
			})
			// memory of the pooled object must not leave the function: with a deferred Put
			// the object is back in the pool the moment the caller gets the result
			derived := map[ssa.Value]bool{}
			for changed := true; changed; {
				changed = false
				engine.Instrs(f, func(in2 ssa.Instruction) {
					switch x := in2.(type) {
					case *ssa.UnOp:
						if x.Op == token.MUL && alias[x.X] && !derived[x] {
							derived[x], changed = true, true
						}
					case *ssa.Slice:
						if derived[x.X] && !derived[x] {
							derived[x], changed = true, true
						}
					case *ssa.Call:
						if derived[x] {
							return
						}
						for _, a := range x.Call.Args {
							if derived[a] {
								derived[x], changed = true, true
							}
						}
					case *ssa.Extract:
						if derived[x.Tuple] && !derived[x] {
							if _, isSl := x.Type().Underlying().(*types.Slice); isSl {
								derived[x], changed = true, true
							}
						}
					case *ssa.Store:
						if alias[x.Addr] && !derived[x.Val] {
							derived[x.Val], changed = true, true
						}
					}
				})
			}
			escapes := ""
			for _, ret := range engine.Returns(f) {
				for i := range ret.Results {
					v := resultValue(ret, i)
					if v == nil {
						continue
					}
					if _, isSl := v.Type().Underlying().(*types.Slice); isSl && derived[v] {
						escapes = r.P.Pos(ret.Pos())
					}
				}
			}
			r.Check(escapes == "", rule, o.next(fn(f)+"|pooled memory returned"), r.P.Pos(d.Pos()), "no slice of the pooled object's memory is returned",
				"the function returns ("+escapes+") a slice of the memory of an object that its deferred Put hands back to the sync.Pool at the same moment: the caller still reads the bytes (hands them to the store) while the next Get overwrites them - the record of one round is stored with the contents of another")
			r.Check(bad == "", rule, o.next(fn(f)+"|deferred Put"), r.P.Pos(d.Pos()), "no defer registered before the deferred Put touches the pooled object",
				"a deferred call registered earlier ("+bad+") runs AFTER the deferred Put (defers run last in, first out) and touches the object that is already back in its sync.Pool: another goroutine may have taken it in between, and its written input is wiped - concurrent hashing returns wrong digests")
		})
	}
	r.OK(rule, "sync.Pool.Put calls", "-", fmt.Sprintf("%d Put calls in the repository's functions; none is followed by a use of the object", puts))
}

// errSelect: a function that runs a writer in a goroutine and then waits with
//
//	select { case err := <-errC: ...; case <-doneC: ... }
//
// where the goroutine reports a failure on errC and closes doneC when it ends,
// can find BOTH cases ready (the writer failed and finished before the waiter
// got to its select); select then picks one at random. The done case therefore
// has to look at the error channel again before it reports success, otherwise a
// failed save is - now and then - reported as a successful one.
//
// Rule: in every function of the package, for every blocking select with a
// receive case on a chan error and a receive case on another channel made in
// the same function, no return with a nil error is reachable from the other
// case without passing a further receive on the error channel.
func errSelect(r *engine.Run, rule string, fns []*ssa.Function, minimum int) {
	chanRoot := func(v ssa.Value) ssa.Value {
		if u, ok := v.(*ssa.UnOp); ok && u.Op == token.MUL {
			return u.X
		}
		return v
	}
	isErrChan := func(v ssa.Value) bool {
		ch, ok := v.Type().Underlying().(*types.Chan)
		return ok && isErrorType(ch.Elem())
	}
	n := 0
	for _, f := range fns {
		if len(f.Blocks) == 0 {
			continue
		}
		madeHere := map[ssa.Value]bool{}
		engine.Instrs(f, func(in ssa.Instruction) {
			switch x := in.(type) {
			case *ssa.MakeChan:
				madeHere[x] = true
			case *ssa.Store:
				if _, ok := x.Val.(*ssa.MakeChan); ok {
					madeHere[x.Addr] = true
				}
			}
		})
		o := ord{}
		engine.Instrs(f, func(in ssa.Instruction) {
			sel, ok := in.(*ssa.Select)
			if !ok || !sel.Blocking {
				return
			}
			var errCh ssa.Value
			for _, st := range sel.States {
				if st.Dir == types.RecvOnly && isErrChan(st.Chan) {
					errCh = chanRoot(st.Chan)
				}
			}
			if errCh == nil {
				return
			}
			receivesErr := func(b *ssa.BasicBlock) bool {
				for _, i2 := range b.Instrs {
					switch y := i2.(type) {
					case *ssa.Select:
						if y == sel {
							continue
						}
						for _, st := range y.States {
							if st.Dir == types.RecvOnly && chanRoot(st.Chan) == errCh {
								return true
							}
						}
					case *ssa.UnOp:
						if y.Op == token.ARROW && chanRoot(y.X) == errCh {
							return true
						}
					}
				}
				return false
			}
			// the index the select returns
			var idx ssa.Value
			for _, ref := range engine.Referrers(sel) {
				if ex, ok := ref.(*ssa.Extract); ok && ex.Index == 0 {
					idx = ex
				}
			}
			if idx == nil {
				return
			}
			for k, st := range sel.States {
				if st.Dir != types.RecvOnly || chanRoot(st.Chan) == errCh || !madeHere[chanRoot(st.Chan)] {
					continue
				}
				// the body of case k
				var body *ssa.BasicBlock
				for _, ref := range engine.Referrers(idx) {
					bo, ok := ref.(*ssa.BinOp)
					if !ok || bo.Op != token.EQL {
						continue
					}
					if c, ok := intConst(bo.Y); !ok || c != int64(k) {
						continue
					}
					for _, r2 := range engine.Referrers(bo) {
						if iff, ok := r2.(*ssa.If); ok {
							body = iff.Block().Succs[0]
						}
					}
				}
				if body == nil {
					continue
				}
				n++
				// a nil-error return reachable without a further look at the error channel
				var bad *ssa.Return
				seen := map[*ssa.BasicBlock]bool{}
				var dfs func(b *ssa.BasicBlock)
				dfs = func(b *ssa.BasicBlock) {
					if seen[b] || bad != nil {
						return
					}
					seen[b] = true
					if receivesErr(b) {
						return
					}
					if ret, ok := b.Instrs[len(b.Instrs)-1].(*ssa.Return); ok {
						for i := range ret.Results {
							if isErrorType(ret.Results[i].Type()) && nilConst(resultValue(ret, i)) {
								bad = ret
							}
						}
						return
					}
					for _, s := range b.Succs {
						dfs(s)
					}
				}
				dfs(body)
				where := ""
				if bad != nil {
					where = r.P.Pos(bad.Pos())
				}
				r.Check(bad == nil, rule, o.next(fn(f)+"|done case of the wait"), r.P.Pos(sel.Pos()), "the completion case looks at the error channel again before it reports success",
					"the wait selects between the writer's error channel and its completion channel, and the completion case returns a nil error ("+where+") without looking at the error channel again: a writer that failed and finished before the waiter reached the select leaves both cases ready, select picks either, and the failed save is reported as successful")
			}
		})
	}
	if n < minimum {
		r.Anchor(rule, fmt.Errorf("unresolved anchor: %d waits on an error channel and a completion channel found (SaveChanges expected)", n))
	}
}

// freshPathBuf: the trie keeps windows of the path it is handed inside the nodes
// it builds (a leaf's remaining path, an extension's path are sub-slices of the
// walked path), and those nodes live on in the store, the cache and the change
// collector. The value is copied at the API boundary (Insert wraps a fresh
// MarshalMsg result); the path must be copied there as well, or a caller that
// refills one key buffer per entry rewrites the paths of the entries it stored
// before - lookups through another handle and the saved state lose them.
//
// Rule: in the exported Insert, no Path argument of a call to one of the trie's
// own unexported methods is the caller's path parameter itself or a slice of it.
func freshPathBuf(r *engine.Run, rule string) {
	f := r.Fn(rule, pkgUtil, "MerklePatriciaTrie", "Insert")
	if f == nil {
		return
	}
	var pathP ssa.Value
	for _, p := range f.Params[1:] {
		if isByteSlice(p.Type()) {
			pathP = p
			break
		}
	}
	if pathP == nil {
		r.Anchor(rule, fmt.Errorf("unresolved anchor: path parameter of %s", fn(f)))
		return
	}
	rootOf := func(v ssa.Value) ssa.Value {
		for {
			switch x := v.(type) {
			case *ssa.ChangeType:
				v = x.X
				continue
			case *ssa.Convert:
				// []byte <-> named []byte keeps the memory; a conversion to or from string copies
				if isByteSlice(x.Type()) && isByteSlice(x.X.Type()) {
					v = x.X
					continue
				}
			case *ssa.Slice:
				v = x.X
				continue
			}
			return v
		}
	}
	n := 0
	o := ord{}
	group := opGroup(r, f)
	var scan func(h *ssa.Function, pathP ssa.Value, depth int)
	scan = func(h *ssa.Function, pathP ssa.Value, depth int) {
		engine.Instrs(h, func(in ssa.Instruction) {
			c, ok := in.(*ssa.Call)
			if !ok {
				return
			}
			g := c.Call.StaticCallee()
			if g == nil || recvNamed(g) != "MerklePatriciaTrie" || g.Object() == nil || g.Object().Exported() {
				return
			}
			for ai, a := range c.Call.Args[1:] {
				if !isByteSlice(a.Type()) {
					continue
				}
				if _, isConst := stripConv(a).(*ssa.Const); isConst {
					continue
				}
				// a helper that only carries part of Insert (validation here, locking there) may be
				// handed the raw path: what counts is what the helper hands on
				if rootOf(a) == pathP && g != h && inGroup(group, g) && depth < 3 && ai+1 < len(g.Params) {
					scan(g, g.Params[ai+1], depth+1)
					continue
				}
				n++
				r.Check(rootOf(a) != pathP, rule, o.next(fn(h)+"|path handed to "+g.Name()), r.P.Pos(c.Pos()), "the walk is handed a copy of the caller's path (or a constant)",
					"Insert hands the caller's own path slice to "+g.Name()+", which builds nodes around sub-slices of it: the stored leaf and extension paths alias the caller's key buffer, so a caller that refills the buffer for its next key rewrites the paths of entries stored before (lookups through another handle, and the saved state, lose them)")
			}
		})
	}
	scan(f, pathP, 0)
	if n < 2 {
		r.Anchor(rule, fmt.Errorf("unresolved anchor: only %d path hand-overs found in %s", n, fn(f)))
	}
}

// refFieldBuf: a method that hands out `Bytes()` of a bytes.Buffer kept in a field
// of its receiver hands out memory that its next call overwrites: every proof,
// export or encoding handed out earlier changes under its holder.
//
// Rule: no function of the given packages returns (directly or through a slice
// of it) the result of (*bytes.Buffer).Bytes() called on a buffer that is, or
// is loaded from, a field of the receiver.
func refFieldBuf(r *engine.Run, rule string, fns []*ssa.Function) {
	n := 0
	for _, f := range fns {
		if len(f.Blocks) == 0 || f.Signature.Recv() == nil || len(f.Params) == 0 {
			continue
		}
		recv := ssa.Value(f.Params[0])
		o := ord{}
		engine.Instrs(f, func(in ssa.Instruction) {
			c, ok := in.(*ssa.Call)
			if !ok || !extCalleeIs(c, "bytes", "Buffer", "Bytes") || len(c.Call.Args) != 1 {
				return
			}
			n++
			// the buffer: &recv.f, or a pointer loaded from recv.f
			b := c.Call.Args[0]
			if u, ok := b.(*ssa.UnOp); ok && u.Op == token.MUL {
				b = u.X
			}
			fa, isField := b.(*ssa.FieldAddr)
			owned := isField && engine.AddrRoot(fa) == recv
			if !owned {
				r.OK(rule, o.next(fn(f)+"|Bytes()"), r.P.Pos(c.Pos()), "the buffer is not a field of the receiver")
				return
			}
			returned := false
			var visit func(v ssa.Value, depth int)
			visit = func(v ssa.Value, depth int) {
				if depth > 4 {
					return
				}
				for _, ref := range engine.Referrers(v) {
					switch x := ref.(type) {
					case *ssa.Return:
						returned = true
					case *ssa.Slice, *ssa.Phi, *ssa.ChangeType, *ssa.MakeInterface:
						visit(x.(ssa.Value), depth+1)
					case *ssa.Store:
						if al, ok := x.Addr.(*ssa.Alloc); ok && x.Val == v {
							for _, r2 := range engine.Referrers(al) {
								if ld, ok := r2.(*ssa.UnOp); ok && ld.Op == token.MUL {
									visit(ld, depth+1)
								}
							}
						}
					}
				}
			}
			visit(c, 0)
			r.Check(!returned, rule, o.next(fn(f)+"|Bytes()"), r.P.Pos(c.Pos()), "the view of the receiver's buffer is not handed out",
				fn(f)+" returns the byte view of a buffer it keeps in its receiver: the next call rewrites the buffer, so what an earlier call handed out (a proof, an export, an encoding) changes under its holder and no longer verifies")
		})
	}
	r.OK(rule, "Bytes() calls", "-", fmt.Sprintf("%d calls of (*bytes.Buffer).Bytes() in methods inspected; none returns a view of a buffer kept in the receiver", n))
}

// ---- round 7 ----------------------------------------------------------------------

// nilResult: a decoder hands back (value, error); on a decoding error the value is
// nil. A use that dereferences the value (a method called on it, a field read, an
// unchecked type assertion) before the error was looked at turns malformed bytes
// into a nil-pointer panic - inside the worker goroutines of GetPath one that no
// caller can recover.
//
// Rule: in the packages of the two tries, at every call of a function from the
// decoder closure that returns a pointer/interface value together with an error,
// every dereferencing use of that value is reached only where the error tested
// nil or the value tested non-nil. For the one decoder that also returns
// (nil, nil) - deserializeTrie on an exhausted pair list - the caller tests the
// list non-empty before the call or the result non-nil before the use.
func nilResult(r *engine.Run, rule string, fns []*ssa.Function) {
	n := 0
	for _, f := range fns {
		if len(f.Blocks) == 0 {
			continue
		}
		o := ord{}
		engine.Instrs(f, func(in ssa.Instruction) {
			c, ok := in.(*ssa.Call)
			if !ok {
				return
			}
			g := c.Call.StaticCallee()
			if g == nil || !decoderReach[g] {
				return
			}
			tup, ok := c.Type().(*types.Tuple)
			if !ok || tup.Len() < 2 || !isErrorType(tup.At(tup.Len()-1).Type()) {
				return
			}
			errv := extractOf(c, tup.Len()-1)
			for i := 0; i < tup.Len()-1; i++ {
				switch tup.At(i).Type().Underlying().(type) {
				case *types.Pointer, *types.Interface:
				default:
					continue
				}
				v := extractOf(c, i)
				if v == nil {
					continue
				}
				// where the value goes: directly, or through the field/local it is stored into
				type use struct {
					at      ssa.Instruction
					what    string
					subject ssa.Value
				}
				var uses []use
				var collect func(x ssa.Value, depth int)
				collect = func(x ssa.Value, depth int) {
					if depth > 2 {
						return
					}
					for _, ref := range engine.Referrers(x) {
						switch y := ref.(type) {
						case *ssa.Call:
							if y.Call.IsInvoke() && y.Call.Value == x {
								uses = append(uses, use{y, "method " + y.Call.Method.Name() + " called on it", x})
							}
						case *ssa.FieldAddr:
							if y.X == x {
								uses = append(uses, use{y, "field read", x})
							}
						case *ssa.UnOp:
							if y.Op == token.MUL && y.X == x {
								uses = append(uses, use{y, "dereference", x})
							}
						case *ssa.TypeAssert:
							if y.X == x && !y.CommaOk {
								if _, isIface := y.AssertedType.Underlying().(*types.Interface); !isIface {
									uses = append(uses, use{y, "unchecked type assertion", x})
								}
							}
						case *ssa.Store:
							// stored into a field of the receiver / a local: follow the loads that come after
							if y.Val == x {
								if fa, ok := y.Addr.(*ssa.FieldAddr); ok {
									engine.Instrs(f, func(in2 ssa.Instruction) {
										if ld, ok := in2.(*ssa.UnOp); ok && ld.Op == token.MUL {
											if fa2, ok := ld.X.(*ssa.FieldAddr); ok && fa2.X == fa.X && fa2.Field == fa.Field && engine.ReachableAfter(y, ld) {
												collect(ld, depth+1)
											}
										}
									})
								}
							}
						}
					}
				}
				collect(v, 0)
				// a decoder that can also answer (nil, nil): the error alone says nothing about the value
				nilNil := mayReturnNilNil(g, map[*ssa.Function]bool{})
				guardParam := -1
				if nilNil {
					guardParam = nilNilUnderEmpty(g)
				}
				for _, u := range uses {
					n++
					good := false
					if nilNil {
						// accepted: the value tested non-nil (below), or the list whose emptiness is the
						// callee's only reason for (nil, nil) tested non-empty
						if guardParam >= 0 && guardParam < len(c.Call.Args) {
							if facts, okf := engine.FactsOn(f, u.at.Block()); okf && nonEmptyFact(facts, c.Call.Args[guardParam]) {
								good = true
							}
						}
						if facts, okf := engine.FactsOn(f, u.at.Block()); okf {
							for _, ft := range facts {
								if ft.Kind == "eq" && !ft.Truth && (nilConst(ft.A) || nilConst(ft.B)) {
									other := ft.A
									if nilConst(ft.A) {
										other = ft.B
									}
									if other == v || other == u.subject || engine.ValKey(other) == engine.ValKey(u.subject) {
										good = true
									}
								}
							}
						}
						r.Check(good, rule, o.next(fn(f)+"|result of "+g.Name()), r.P.Pos(u.at.Pos()), "the value is used only where it tested non-nil or the decoded list tested non-empty",
							"the value returned by "+engine.CalleeName(c)+" is used ("+u.what+") although that function also answers (nil, nil) - for an empty list - and neither the value was tested non-nil nor the list non-empty: an input with an empty list makes the use panic with a nil dereference")
						continue
					}
					if facts, okf := engine.FactsOn(f, u.at.Block()); okf {
						for _, ft := range facts {
							if ft.Kind != "eq" {
								continue
							}
							if errv != nil && ft.Truth && (ft.A == ssa.Value(errv) && nilConst(ft.B) || ft.B == ssa.Value(errv) && nilConst(ft.A)) {
								good = true
							}
							if !ft.Truth && (nilConst(ft.A) || nilConst(ft.B)) {
								// some value tested non-nil: accept when it is this value or a load of where it was stored
								other := ft.A
								if nilConst(ft.A) {
									other = ft.B
								}
								if other == v || other == u.subject || engine.ValKey(other) == engine.ValKey(u.subject) {
									good = true
								}
							}
						}
					}
					if u.at.Block() == c.Block() && engine.InstrIndex(u.at) > engine.InstrIndex(c) {
						good = false // used in the call's own block: nothing was tested in between
					}
					r.Check(good, rule, o.next(fn(f)+"|result of "+g.Name()), r.P.Pos(u.at.Pos()), "the decoded value is used only where the call's error tested nil",
						"the value returned by "+engine.CalleeName(c)+" is used ("+u.what+") on a path where its error has not been tested: on malformed bytes the decoder returns a nil value with the error, and the use panics with a nil dereference instead of the error being returned")
				}
			}
		})
	}
	if n < 3 {
		r.Anchor(rule, fmt.Errorf("unresolved anchor: only %d dereferencing uses of decoder results found", n))
	}
}

// domCollected: the export GetPath hands out is what collectNodes gathered from
// the (loaded) root after the requested keys were marked. A return that hands out
// an export without having gone through the collection - a shortcut for a root
// that "looks empty", say - exports something else than the trie.
//
// Rule: every return of GetPath whose first result is not the nil constant is
// dominated by the call of collectNodes.
func domCollected(r *engine.Run, rule string) {
	f := wfn(r, rule, "GetPath")
	collect := wfn(r, rule, "collectNodes")
	if f == nil || collect == nil {
		return
	}
	var calls []*ssa.Call
	engine.Instrs(f, func(in ssa.Instruction) {
		if c, ok := in.(*ssa.Call); ok && c.Call.StaticCallee() == collect {
			calls = append(calls, c)
		}
	})
	if len(calls) == 0 {
		r.Anchor(rule, fmt.Errorf("unresolved anchor: call of collectNodes in GetPath"))
		return
	}
	o := ord{}
	n := 0
	for _, ret := range engine.Returns(f) {
		if len(ret.Results) != 2 || nilConst(resultValue(ret, 0)) {
			continue
		}
		n++
		good := false
		for _, c := range calls {
			if engine.InstrDominates(c, ret) {
				good = true
			}
		}
		if !good {
			// a trie without a root has nothing to collect: the empty export is the export
			if facts, ok := engine.FactsOn(f, ret.Block()); ok {
				for _, ft := range facts {
					if ft.Kind == "eq" && ft.Truth {
						for _, pr := range [][2]ssa.Value{{ft.A, ft.B}, {ft.B, ft.A}} {
							if fld := fieldLoadOf(pr[0]); fld != nil && fld.Name() == "root" && nilConst(pr[1]) {
								good = true
							}
						}
					}
				}
			}
		}
		r.Check(good, rule, o.next(fn(f)+"|export returned"), r.P.Pos(ret.Pos()), "the export is returned only after the nodes were collected from the root",
			"GetPath hands out an export on a path that never collected the trie's nodes (a shortcut in front of the marking and collection): what is exported is not the trie - a non-empty trie that merely looks empty to the shortcut (collapsed root of total weight 0) is exported as the empty trie, and the partial trie built from it has another root")
	}
	if n < 1 {
		r.Anchor(rule, fmt.Errorf("unresolved anchor: export returns of GetPath"))
	}
}

// recordsEvery: the created-hash handler of Commit records every hash it receives:
// in its receive loop no path leads from the receive back to the loop head (the
// next receive) without passing the append onto the created list (directly or in
// the trie method the handler hands the hash to). A hash that is skipped - because
// it was found queued for collection, say - belongs to no list: a rollback does
// not remove it and the collector never sees it.
func recordsEvery(r *engine.Run, rule string) {
	f := wfn(r, rule, "collectDeleteAndCreated")
	if f == nil {
		return
	}
	storesCreated := func(g *ssa.Function) []*ssa.BasicBlock {
		var out []*ssa.BasicBlock
		engine.Instrs(g, func(in ssa.Instruction) {
			if st, ok := in.(*ssa.Store); ok {
				if fld := engine.FieldOf(st.Addr); fld != nil && fld.Name() == "created" {
					if c, ok := st.Val.(*ssa.Call); ok {
						if b, ok := c.Call.Value.(*ssa.Builtin); ok && b.Name() == "append" {
							out = append(out, st.Block())
						}
					}
				}
			}
		})
		return out
	}
	n := 0
	for _, a := range f.AnonFuncs {
		// record points: appends in the closure, or calls of a trie method that appends on every path
		rec := map[*ssa.BasicBlock]bool{}
		for _, b := range storesCreated(a) {
			rec[b] = true
		}
		engine.Instrs(a, func(in ssa.Instruction) {
			c, ok := in.(*ssa.Call)
			if !ok {
				return
			}
			h := c.Call.StaticCallee()
			if h == nil || h.Pkg != f.Pkg || len(h.Blocks) == 0 {
				return
			}
			bs := storesCreated(h)
			if len(bs) == 0 {
				return
			}
			all := true
			for _, ret := range engine.Returns(h) {
				dom := false
				for _, b := range bs {
					if b == ret.Block() || b.Dominates(ret.Block()) {
						dom = true
					}
				}
				if !dom {
					all = false
				}
			}
			if all {
				rec[c.Block()] = true
				r.Touch(h)
			}
		})
		if len(rec) == 0 {
			continue
		}
		// the receive loop: a block that receives (range over a channel) and branches on ok
		for _, b := range a.Blocks {
			var recv *ssa.UnOp
			for _, in := range b.Instrs {
				if u, ok := in.(*ssa.UnOp); ok && u.Op == token.ARROW && u.CommaOk {
					recv = u
				}
			}
			iff, isIf := b.Instrs[len(b.Instrs)-1].(*ssa.If)
			if recv == nil || !isIf {
				continue
			}
			n++
			body := b.Succs[0]
			skipped := false
			seen := map[*ssa.BasicBlock]bool{}
			var dfs func(x *ssa.BasicBlock)
			dfs = func(x *ssa.BasicBlock) {
				if seen[x] || skipped {
					return
				}
				seen[x] = true
				if rec[x] {
					return
				}
				if x == b {
					skipped = true
					return
				}
				// skipping an empty hash is no loss: do not follow the edge taken when len(hash) == 0
				if iff2, ok := x.Instrs[len(x.Instrs)-1].(*ssa.If); ok {
					if bo, ok := iff2.Cond.(*ssa.BinOp); ok {
						isLen := func(v ssa.Value) bool {
							c, ok := v.(*ssa.Call)
							if !ok {
								return false
							}
							bi, ok := c.Call.Value.(*ssa.Builtin)
							return ok && bi.Name() == "len"
						}
						zero := func(v ssa.Value) bool { k, ok := intConst(v); return ok && k == 0 }
						emptyEdge := -1
						switch {
						case bo.Op == token.EQL && (isLen(bo.X) && zero(bo.Y) || isLen(bo.Y) && zero(bo.X)):
							emptyEdge = 0
						case (bo.Op == token.NEQ || bo.Op == token.GTR) && isLen(bo.X) && zero(bo.Y):
							emptyEdge = 1
						}
						for i, s := range x.Succs {
							if i == emptyEdge {
								continue
							}
							dfs(s)
						}
						return
					}
				}
				for _, s := range x.Succs {
					dfs(s)
				}
			}
			dfs(body)
			_ = iff
			r.Check(!skipped, rule, fn(a)+"|every received hash is recorded", r.P.Pos(recv.Pos()), "no path from the receive to the next receive bypasses the append onto the created list",
				"the created-hash handler can go on to the next hash without recording the one it received (a path through the loop body bypasses the append onto the created list): that node is in neither list, so a rollback of the commit leaves it in storage and the collector never removes it")
		}
	}
	if n < 1 {
		r.Anchor(rule, fmt.Errorf("unresolved anchor: receive loop of the created-hash handler"))
	}
}

// nilNilUnderEmpty: every (nil, ..., nil) return of g is reached only where
// len(parameter k) == 0 tested true, for one slice parameter k; -1 otherwise.
func nilNilUnderEmpty(g *ssa.Function) int {
	k := -1
	for _, ret := range engine.Returns(g) {
		if len(ret.Results) < 2 || !nilConst(ret.Results[0]) || !nilConst(ret.Results[len(ret.Results)-1]) {
			continue
		}
		facts, ok := engine.FactsOn(g, ret.Block())
		if !ok {
			return -1
		}
		found := -1
		for _, ft := range facts {
			if ft.Kind != "eq" || !ft.Truth {
				continue
			}
			for _, pr := range [][2]ssa.Value{{ft.A, ft.B}, {ft.B, ft.A}} {
				if z, ok := intConst(pr[1]); !ok || z != 0 {
					continue
				}
				if c, ok := pr[0].(*ssa.Call); ok {
					if b, ok := c.Call.Value.(*ssa.Builtin); ok && b.Name() == "len" {
						for i, p := range g.Params {
							if c.Call.Args[0] == ssa.Value(p) {
								found = i
							}
						}
					}
				}
			}
		}
		if found < 0 || (k >= 0 && k != found) {
			return -1
		}
		k = found
	}
	return k
}

// nonEmptyFact: the facts establish len(x) != 0.
func nonEmptyFact(facts []engine.Fact, x ssa.Value) bool {
	isLenX := func(v ssa.Value) bool {
		c, ok := v.(*ssa.Call)
		if !ok {
			return false
		}
		b, ok := c.Call.Value.(*ssa.Builtin)
		return ok && b.Name() == "len" && (c.Call.Args[0] == x || engine.ValKey(c.Call.Args[0]) == engine.ValKey(x))
	}
	for _, ft := range facts {
		switch ft.Kind {
		case "eq":
			for _, pr := range [][2]ssa.Value{{ft.A, ft.B}, {ft.B, ft.A}} {
				if z, ok := intConst(pr[1]); ok && z == 0 && isLenX(pr[0]) && !ft.Truth {
					return true
				}
			}
		case "lt":
			// 0 < len(x) true, or len(x) < 1 false
			if z, ok := intConst(ft.A); ok && z == 0 && isLenX(ft.B) && ft.Truth {
				return true
			}
			if z, ok := intConst(ft.B); ok && z == 1 && isLenX(ft.A) && !ft.Truth {
				return true
			}
		}
	}
	return false
}

// refLiveChange: the change collector rewrites the change objects it holds in
// place (AddChange turns a chain A -> B into A -> C by assigning the New field of
// the object found in its map), under its own lock. A method that hands those
// very objects to a caller lets the caller read them with no lock at all: a
// goroutine that inspects a change set races with a writer updating the same
// key. Either the held objects are never rewritten, or what is handed out are
// copies.
//
// Rule: if some function of the package stores into a field of a *NodeChange that
// it looked up in a collector's Changes map, then no function puts a *NodeChange
// obtained from that map (lookup or range) into a slice element, an append or a
// return value.
func refLiveChange(r *engine.Run, rule string) {
	fromChangesMap := func(v ssa.Value) bool {
		ex, ok := v.(*ssa.Extract)
		if !ok {
			if lk, ok := v.(*ssa.Lookup); ok {
				return isFieldLoadNamed(lk.X, "Changes")
			}
			return false
		}
		switch t := ex.Tuple.(type) {
		case *ssa.Lookup:
			return ex.Index == 0 && isFieldLoadNamed(t.X, "Changes")
		case *ssa.Next:
			if rg, ok := t.Iter.(*ssa.Range); ok {
				return ex.Index == 2 && isFieldLoadNamed(rg.X, "Changes")
			}
		}
		return false
	}
	var writers, leaks []ssa.Instruction
	var leakFn []*ssa.Function
	for _, f := range funcsOfPkg(r, pkgUtil) {
		if len(f.Blocks) == 0 {
			continue
		}
		engine.Instrs(f, func(in ssa.Instruction) {
			switch x := in.(type) {
			case *ssa.Store:
				if fa, ok := x.Addr.(*ssa.FieldAddr); ok && fromChangesMap(fa.X) {
					writers = append(writers, x)
					r.Touch(f)
				}
				if _, ok := x.Addr.(*ssa.IndexAddr); ok && fromChangesMap(x.Val) {
					leaks = append(leaks, x)
					leakFn = append(leakFn, f)
					r.Touch(f)
				}
			case *ssa.Return:
				for _, res := range x.Results {
					if fromChangesMap(res) {
						leaks = append(leaks, x)
						leakFn = append(leakFn, f)
					}
				}
			case *ssa.Call:
				if b, ok := x.Call.Value.(*ssa.Builtin); ok && b.Name() == "append" {
					for _, a := range x.Call.Args[1:] {
						if fromChangesMap(a) {
							leaks = append(leaks, x)
							leakFn = append(leakFn, f)
						}
					}
				}
			}
		})
	}
	if len(writers) == 0 {
		r.OK(rule, "core/util|held changes", "-", "no function rewrites a change object held in a collector's map: handing the objects out is harmless")
		return
	}
	w := writers[0]
	if len(leaks) == 0 {
		r.OK(rule, "core/util|held changes", r.P.Pos(w.Pos()), fmt.Sprintf("change objects held in the map are rewritten in place (%d sites) and never handed out: GetChanges and the like hand out copies", len(writers)))
		return
	}
	o := ord{}
	for i, l := range leaks {
		r.Fail(rule, o.next(fn(leakFn[i])+"|hands out a held change"), r.P.Pos(l.Pos()),
			fn(leakFn[i])+" hands out the collector's own change objects, which "+fn(w.Parent())+" rewrites in place ("+r.P.Pos(w.Pos())+") under the collector's lock: a goroutine that reads the change set it was given (no lock) races with a writer updating the same key")
	}
}

func isFieldLoadNamed(v ssa.Value, name string) bool {
	fld := fieldLoadOf(v)
	return fld != nil && fld.Name() == name
}

// domPrevLevel: the layered store is one logical store: a node that is in its
// previous level is in the store. LevelNodeDB.getNode hands back the current
// level's miss only when there is no other level to ask (prev == current);
// otherwise the previous level's answer is the answer. A lookup that gives up
// early for some configurations (a persistent current level, say) reports
// present nodes as missing: false "missing nodes", failed lookups, a repair that
// cannot complete.
func domPrevLevel(r *engine.Run, rule string) {
	f := r.Fn(rule, pkgUtil, "LevelNodeDB", "getNode")
	if f == nil {
		return
	}
	// the current level's lookup: an invoke of GetNode on the value loaded from field current
	var curCall *ssa.Call
	engine.Instrs(f, func(in ssa.Instruction) {
		c, ok := in.(*ssa.Call)
		if !ok || !c.Call.IsInvoke() || c.Call.Method.Name() != "GetNode" {
			return
		}
		if fld := fieldLoadOf(c.Call.Value); fld != nil && fld.Name() == "current" {
			curCall = c
		}
	})
	if curCall == nil {
		r.Anchor(rule, fmt.Errorf("unresolved anchor: lookup in the current level in %s", fn(f)))
		return
	}
	errv := extractOf(curCall, 1)
	n := 0
	o := ord{}
	for _, ret := range engine.Returns(f) {
		if len(ret.Results) != 2 || errv == nil || resultValue(ret, 1) != ssa.Value(errv) {
			continue
		}
		// only the miss path: where the error is known nil the return is the hit
		n++
		good, hit := false, false
		if facts, ok := engine.FactsOn(f, ret.Block()); ok {
			for _, ft := range facts {
				if ft.Kind != "eq" {
					continue
				}
				if ft.Truth && (ft.A == ssa.Value(errv) && nilConst(ft.B) || ft.B == ssa.Value(errv) && nilConst(ft.A)) {
					hit = true
				}
				fa, fb := fieldLoadOf(ft.A), fieldLoadOf(ft.B)
				if ft.Truth && fa != nil && fb != nil && (fa.Name() == "prev" && fb.Name() == "current" || fa.Name() == "current" && fb.Name() == "prev") {
					good = true
				}
			}
		}
		if hit {
			r.OK(rule, o.next(fn(f)+"|current level's answer returned"), r.P.Pos(ret.Pos()), "the hit of the current level")
			continue
		}
		r.Check(good, rule, o.next(fn(f)+"|current level's answer returned"), r.P.Pos(ret.Pos()), "the current level's miss is final only where prev == current tested true",
			"the layered store reports the current level's miss without having asked the previous level on a path where the two levels differ: nodes that live in the previous level are reported absent (false missing-node reports, lookups of present entries fail, and a repair that put nodes there cannot be read)")
	}
	if n < 1 {
		r.Anchor(rule, fmt.Errorf("unresolved anchor: return of the current level's error in %s", fn(f)))
	}
}

// domFullWalk: the node stores' iterate functions are what MergeState, MergeDB and
// the validators trust to have seen every node when they return nil. Inside
// their loops the only ways out are the end of the collection and an error
// return; a break (or any other jump out of the loop body) that ends in
// `return nil` reports a partial walk as a complete one.
func domFullWalk(r *engine.Run, rule string) {
	n := 0
	for _, f := range funcsOfPkg(r, pkgUtil) {
		if len(f.Blocks) == 0 || !(f.Name() == "iterate" || f.Name() == "Iterate") {
			continue
		}
		rn := recvNamed(f)
		if rn != "MemoryNodeDB" && rn != "LevelNodeDB" && rn != "PNodeDB" {
			continue
		}
		o := ord{}
		for _, h := range f.Blocks {
			// a range loop head: the block holding the Next of a range over the store's collection
			isHead := false
			for _, in := range h.Instrs {
				if _, ok := in.(*ssa.Next); ok {
					isHead = true
				}
			}
			if !isHead {
				continue
			}
			cyc := cycleOf(h)
			if cyc == nil {
				continue
			}
			n++
			bad := ""
			for b := range cyc {
				if b == h {
					continue
				}
				for _, s := range b.Succs {
					if cyc[s] {
						continue
					}
					// an edge out of the loop body: may it end in a nil return?
					seen := map[*ssa.BasicBlock]bool{}
					var dfs func(x *ssa.BasicBlock)
					dfs = func(x *ssa.BasicBlock) {
						if seen[x] || cyc[x] || bad != "" {
							return
						}
						seen[x] = true
						if ret, ok := x.Instrs[len(x.Instrs)-1].(*ssa.Return); ok {
							for i := range ret.Results {
								if isErrorType(ret.Results[i].Type()) && nilConst(resultValue(ret, i)) {
									bad = r.P.Pos(b.Instrs[len(b.Instrs)-1].Pos())
								}
							}
							return
						}
						for _, s2 := range x.Succs {
							dfs(s2)
						}
					}
					dfs(s)
				}
			}
			r.Check(bad == "", rule, o.next(fn(f)+"|walk"), r.P.Pos(f.Pos()), "the loop is left only at the end of the collection or with an error",
				"the store's walk can leave its loop early ("+bad+") and still return nil: the caller (MergeState, MergeDB, a validator) takes nil for 'every node was visited', so a repair that copied only part of the donor reports success and the trie keeps its missing nodes")
		}
	}
	if n < 1 {
		r.Anchor(rule, fmt.Errorf("unresolved anchor: no iteration loop found in the node stores"))
	}
}

// ---- round 8 ----------------------------------------------------------------------

// agreeKindTag: "two tries with different content have different roots" needs the
// hash pre-images of the node kinds to live in disjoint spaces. The three kinds
// hash origin || encode(), where encode() is a ':'-separated field list whose
// fields (paths, child keys, values) are arbitrary bytes; nothing in the pre-image
// says which kind it is. An extension (path ':' childkey) and a leaf
// (prefix ':' path ':' value) with prefix == extension path are the same bytes
// when childkey == path ':' value - so an extension over a branch and a leaf
// whose value is the tail of that branch's hash are one node, and two different
// contents share a root (witness: findings/C02-kind-confusion).
//
// Rule: GetHashBytes of every node kind writes, besides the origin and its
// encode(), a kind-distinguishing constant into the hashed buffer (a constant
// byte, the serialization prefix, a type code), or the kinds' encode functions
// emit different constant first bytes.
func agreeKindTag(r *engine.Run, rule string) {
	tagged := 0
	var pos string
	for _, T := range trieNodeTypes {
		h := r.Fn(rule, pkgUtil, T, "GetHashBytes")
		if h == nil {
			return
		}
		if pos == "" {
			pos = r.P.Pos(h.Pos())
		}
		if hb, _ := hashBody(h); hb != nil {
			h = hb
		}
		var buf ssa.Value
		engine.Instrs(h, func(in ssa.Instruction) {
			if c, ok := in.(*ssa.Call); ok && extCalleeIs(c, "bytes", "", "NewBuffer") {
				buf = c
			}
		})
		has := false
		engine.Instrs(h, func(in ssa.Instruction) {
			c, ok := in.(*ssa.Call)
			if !ok || buf == nil {
				return
			}
			// a write of a constant (or of the type's serialization prefix) into the hashed buffer
			switch {
			case extCalleeIs(c, "bytes", "Buffer", "WriteByte"), extCalleeIs(c, "bytes", "Buffer", "Write"), extCalleeIs(c, "bytes", "Buffer", "WriteString"):
				if c.Call.Args[0] == buf {
					has = true
				}
			case extCalleeIs(c, "encoding/binary", "", "Write"):
				if through(c.Call.Args[0]) == buf {
					if _, isConst := through(c.Call.Args[2]).(*ssa.Const); isConst {
						has = true
					}
				}
			default:
				if sc := c.Call.StaticCallee(); sc != nil && (sc.Name() == "writeNodePrefix" || sc.Name() == "GetSerializationPrefix") {
					has = true
				}
			}
		})
		if has {
			tagged++
		}
	}
	r.Check(tagged == len(trieNodeTypes), rule, "util|hash pre-image of the node kinds", pos, "every kind writes a kind tag into its hash pre-image",
		fmt.Sprintf("%d of %d node kinds put a kind tag into their hash pre-image: leaf, branch and extension pre-images share one space of ':'-separated byte strings, so an extension (path ':' childkey) and a leaf (prefix ':' path ':' value) with prefix == path collide when childkey == path ':' value - two different contents with the same root", tagged, len(trieNodeTypes)))
}

// domMergeAtomic: a merge is refused (an error is returned) only before the parent
// is touched - the start-root comparison - or because a store operation of the
// replay itself failed. An error return that is reached after the replay for any
// other reason (a sanity check on the result, say) leaves the parent with the
// child's nodes and deletes applied but its old root: "a rejected merge leaves the
// parent exactly as it was" fails, and for a child that emptied the trie the
// check itself fails (a nil root resolves to nothing).
func domMergeAtomic(r *engine.Run, rule string) {
	f := r.Fn(rule, pkgUtil, "MerklePatriciaTrie", "mergeChanges")
	if f == nil {
		return
	}
	group := opGroup(r, f)
	var replay []*ssa.Call
	engine.Instrs(f, func(in ssa.Instruction) {
		c, ok := in.(*ssa.Call)
		if !ok {
			return
		}
		sc := c.Call.StaticCallee()
		if sc == nil {
			return
		}
		if isNodeInstaller(r, c) || sc.Name() == "insertNode" || sc.Name() == "deleteNode" || (sc != f && inGroup(group, sc) && (callsInstaller(r, sc) || callsNamed(sc, "deleteNode"))) {
			replay = append(replay, c)
		}
	})
	if len(replay) == 0 {
		r.Anchor(rule, fmt.Errorf("unresolved anchor: replay calls in %s", fn(f)))
		return
	}
	o := ord{}
	n := 0
	for _, ret := range engine.Returns(f) {
		if len(ret.Results) != 1 {
			continue
		}
		ev := resultValue(ret, 0)
		if nilConst(ev) {
			continue
		}
		after := false
		for _, c := range replay {
			if engine.ReachableAfter(c, ret) {
				after = true
			}
		}
		if !after {
			continue
		}
		n++
		own := false
		for _, c := range replay {
			if ev == ssa.Value(c) {
				own = true
			}
			if ex, ok := ev.(*ssa.Extract); ok && ex.Tuple == ssa.Value(c) {
				own = true
			}
			// the store operation's error wrapped with context (fmt.Errorf("...: %w", err))
			if wc, ok := ev.(*ssa.Call); ok {
				for _, ref := range engine.Referrers(c) {
					if ex, ok := ref.(*ssa.Extract); ok && dependsOn(wc, ex) {
						own = true
					}
				}
				if dependsOn(wc, c) {
					own = true
				}
			}
		}
		if !own {
			// whatever is returned, it is returned on the error branch of a store operation
			if facts, ok := engine.FactsOn(f, ret.Block()); ok {
				for _, ft := range facts {
					if ft.Kind != "eq" || ft.Truth {
						continue
					}
					for _, pr := range [][2]ssa.Value{{ft.A, ft.B}, {ft.B, ft.A}} {
						if !nilConst(pr[1]) {
							continue
						}
						for _, c := range replay {
							if pr[0] == ssa.Value(c) {
								own = true
							}
							if ex, ok := pr[0].(*ssa.Extract); ok && ex.Tuple == ssa.Value(c) {
								own = true
							}
						}
					}
				}
			}
		}
		r.Check(own, rule, o.next(fn(f)+"|error after the replay"), r.P.Pos(ret.Pos()), "the only errors returned once the replay has begun are those of the replay's own store operations",
			"mergeChanges can return an error after it has replayed (part of) the child's changes for a reason other than a failed store operation: the merge is reported as refused while the parent already holds the child's nodes and deletes under its old root - its content, root and pending changes are not what they were, and a child whose view is the empty trie (nil root) can never be merged")
	}
	r.OK(rule, fn(f)+"|replay", r.P.Pos(f.Pos()), fmt.Sprintf("%d replay calls, %d error returns after them judged", len(replay), n))
}

// lockRootWrite: a method of the weighted trie that takes the trie's lock does all
// of its work on the root under it: a call of another method of the same trie
// that writes the root field (the exported, unlocked Delete, say) is dominated by
// the Lock.
func lockRootWrite(r *engine.Run, rule string) {
	writesRoot := map[*ssa.Function]bool{}
	fns := funcsOfPkg(r, pkgWMPT)
	for _, g := range fns {
		if len(g.Blocks) == 0 || recvNamed(g) != "WeightedMerkleTrie" {
			continue
		}
		engine.Instrs(g, func(in ssa.Instruction) {
			if st, ok := in.(*ssa.Store); ok {
				if fa, ok := st.Addr.(*ssa.FieldAddr); ok && len(g.Params) > 0 && fa.X == ssa.Value(g.Params[0]) && engine.FieldOf(fa).Name() == "root" {
					writesRoot[g] = true
				}
			}
		})
	}
	n := 0
	for _, f := range fns {
		if len(f.Blocks) == 0 || recvNamed(f) != "WeightedMerkleTrie" || f.Parent() != nil {
			continue
		}
		var lock *ssa.Call
		engine.Instrs(f, func(in ssa.Instruction) {
			if c, ok := in.(*ssa.Call); ok {
				if _, op, isLock := engine.LockOp(c); isLock && op == "Lock" && lock == nil {
					lock = c
				}
			}
		})
		if lock == nil {
			continue
		}
		n++
		o := ord{}
		engine.Instrs(f, func(in ssa.Instruction) {
			c, ok := in.(*ssa.Call)
			if !ok {
				return
			}
			g := c.Call.StaticCallee()
			if g == nil || !writesRoot[g] || len(c.Call.Args) == 0 || c.Call.Args[0] != ssa.Value(f.Params[0]) {
				return
			}
			r.Check(engine.InstrDominates(lock, c), rule, o.next(fn(f)+"|root-writing call"), r.P.Pos(c.Pos()), "called with the trie's lock held",
				fn(f)+" takes the trie's lock but calls "+g.Name()+", which rewrites the root, outside it: the goroutine-safe entry point runs removals unlocked, and a concurrent insert loses weight updates and children")
		})
	}
	// a method that rewrites the root under the trie's lock holds it in write mode
	for _, f := range fns {
		if len(f.Blocks) == 0 || recvNamed(f) != "WeightedMerkleTrie" || f.Parent() != nil || !writesRoot[f] {
			continue
		}
		var rlock *ssa.Call
		engine.Instrs(f, func(in ssa.Instruction) {
			if c, ok := in.(*ssa.Call); ok {
				if _, op, isLock := engine.LockOp(c); isLock && op == "RLock" {
					rlock = c
				}
			}
		})
		if rlock != nil {
			r.Fail(rule, fn(f)+"|writer under the read lock", r.P.Pos(rlock.Pos()), fn(f)+" rewrites the root while it holds the trie's lock in read mode only: concurrent writers run together, weight updates and child slots are lost, and the branch weights stop being the sums of their children - honest proofs no longer verify to the trie's root")
		}
	}
	if n < 2 {
		r.Anchor(rule, fmt.Errorf("unresolved anchor: %d locking methods of the weighted trie", n))
	}
}

// domReject: block numbers run from 1 to the total weight, and a subtree of weight
// w owns the blocks 1..w that reach it. A rejection with ErrWeightNotInRange that
// follows a comparison of the block with a weight is sound only for
// block > weight; `block >= weight` turns the last block of a subtree away.
func domReject(r *engine.Run, rule string) {
	n := 0
	for _, f := range funcsOfPkg(r, pkgWMPT) {
		if len(f.Blocks) == 0 {
			continue
		}
		o := ord{}
		for _, ret := range engine.Returns(f) {
			isReject := false
			for i := range ret.Results {
				if ld, ok := resultValue(ret, i).(*ssa.UnOp); ok {
					if g, ok := ld.X.(*ssa.Global); ok && g.Name() == "ErrWeightNotInRange" {
						isReject = true
					}
				}
			}
			if !isReject {
				continue
			}
			n++
			// the comparison that leads here: the If of the single predecessor
			b := ret.Block()
			if len(b.Preds) != 1 {
				r.OK(rule, o.next(fn(f)+"|rejection"), r.P.Pos(ret.Pos()), "not reached through a single comparison (loop exhaustion or a merge of paths)")
				continue
			}
			p := b.Preds[0]
			iff, ok := p.Instrs[len(p.Instrs)-1].(*ssa.If)
			if !ok {
				r.OK(rule, o.next(fn(f)+"|rejection"), r.P.Pos(ret.Pos()), "not reached through a comparison")
				continue
			}
			bo, ok := iff.Cond.(*ssa.BinOp)
			if !ok {
				r.OK(rule, o.next(fn(f)+"|rejection"), r.P.Pos(ret.Pos()), "not a comparison of the block with a weight")
				continue
			}
			onTrue := p.Succs[0] == b
			x, y, op := bo.X, bo.Y, bo.Op
			wx, wy := weightSource(x) != nil, weightSource(y) != nil
			if wx == wy {
				r.OK(rule, o.next(fn(f)+"|rejection"), r.P.Pos(ret.Pos()), "not a comparison of the block with a weight")
				continue
			}
			if wx { // weight OP block  ->  block OP' weight
				x, y = y, x
				switch op {
				case token.LSS:
					op = token.GTR
				case token.LEQ:
					op = token.GEQ
				case token.GTR:
					op = token.LSS
				case token.GEQ:
					op = token.LEQ
				}
			}
			if !onTrue {
				switch op {
				case token.LSS:
					op = token.GEQ
				case token.LEQ:
					op = token.GTR
				case token.GTR:
					op = token.LEQ
				case token.GEQ:
					op = token.LSS
				}
			}
			_ = x
			_ = y
			r.Check(op == token.GTR, rule, o.next(fn(f)+"|rejection"), r.P.Pos(iff.Cond.Pos()), "rejected only where block > weight",
				"a block is rejected as out of range where block "+op.String()+" weight holds: blocks are numbered from 1, the subtree of weight w owns 1..w, so anything but block > weight turns away a block the subtree owns (the last block of a collapsed subtree gets no proof) or lets a foreign one in")
		}
	}
	if n < 4 {
		r.Anchor(rule, fmt.Errorf("unresolved anchor: %d range rejections in the weighted trie", n))
	}
}

// agreeLevels: a path has levels-1 elements and the verifier folds exactly that
// many times, so the level count computeSize hands to ComputeTree and SetTree has
// to be the number of halving steps of its own size loop plus one. Accepted
// forms of the second result: the loop's own counter plus one; the constant for
// the single-leaf tree; the closed form bits.Len(uint(leaves-1)) + 1. The closed
// form bits.Len(uint(leaves)) + 1 is one too high exactly for full trees.
func agreeLevels(r *engine.Run, rule string, size *ssa.Function) {
	if size == nil {
		return
	}
	var leaves ssa.Value
	if len(size.Params) >= 2 {
		leaves = size.Params[1]
	}
	o := ord{}
	n := 0
	for _, ret := range engine.Returns(size) {
		if len(ret.Results) != 2 {
			continue
		}
		n++
		v := resultValue(ret, 1)
		good, why := true, "level count not in a form this rule judges"
		if _, ok := intConst(v); ok {
			why = "constant (single-leaf tree)"
		} else if b, ok := v.(*ssa.BinOp); ok && b.Op == token.ADD {
			k, isK := intConst(b.Y)
			inner := b.X
			if !isK {
				k, isK = intConst(b.X)
				inner = b.Y
			}
			if isK {
				if c, ok := stripConv(inner).(*ssa.Call); ok && extCalleeIs(c, "math/bits", "", "Len") {
					arg := stripConv(c.Call.Args[0])
					minusOne := false
					if sb, ok := arg.(*ssa.BinOp); ok && sb.Op == token.SUB {
						if one, ok := intConst(sb.Y); ok && one == 1 && stripConv(sb.X) == leaves {
							minusOne = true
						}
					}
					good = minusOne && k == 1
					why = "closed form bits.Len(leaves-1)+1"
				} else if ph, ok := inner.(*ssa.Phi); ok && scanInduction(ph) {
					good = k == 1
					why = "the size loop's own counter plus one"
				}
			}
		} else if ph, ok := v.(*ssa.Phi); ok && scanInduction(ph) {
			why = "a loop counter"
		}
		r.Check(good, rule, o.next(fn(size)+"|level count"), r.P.Pos(ret.Pos()), why,
			"the level count is not the number of halving steps plus one (closed form other than bits.Len(leaves-1)+1, or an offset other than one): for a leaf count that is a power of two every path gets one element too many, the verifier folds once too often, and no path of a full tree verifies")
	}
	if n < 1 {
		r.Anchor(rule, fmt.Errorf("unresolved anchor: returns of computeSize"))
	}
}

// freshPath: the node list of a path handed out by the prover belongs to the
// caller: it is made in the call, not carved out of memory the tree keeps (the
// next request would rewrite the path an earlier caller still holds, which then
// proves another leaf).
func freshPath(r *engine.Run, rule string, prove *ssa.Function) {
	if prove == nil {
		return
	}
	n := 0
	for _, g := range opGroup(r, prove) {
		o := ord{}
		engine.Instrs(g, func(in ssa.Instruction) {
			st, ok := in.(*ssa.Store)
			if !ok {
				return
			}
			fa, ok := st.Addr.(*ssa.FieldAddr)
			if !ok || engine.FieldOf(fa).Name() != "Nodes" || !isNamed(fa.X.Type(), pkgUtil, "MTPath") {
				return
			}
			n++
			v := st.Val
			for {
				if s, ok := v.(*ssa.Slice); ok {
					v = s.X
					continue
				}
				break
			}
			_, made := v.(*ssa.MakeSlice)
			if c, ok := v.(*ssa.Call); ok {
				if b, ok := c.Call.Value.(*ssa.Builtin); ok && b.Name() == "append" {
					if base, ok := c.Call.Args[0].(*ssa.Const); ok && base.Value == nil {
						made = true
					}
				}
			}
			fromField := false
			if ld, ok := v.(*ssa.UnOp); ok {
				if fa2, ok := ld.X.(*ssa.FieldAddr); ok && len(g.Params) > 0 && engine.AddrRoot(fa2) == ssa.Value(g.Params[0]) {
					fromField = true
				}
			}
			r.Check(made && !fromField, rule, o.next(fn(g)+"|path nodes"), r.P.Pos(st.Pos()), "the path's node list is made in the call",
				"the node list of the path handed out is not a slice made for this call (it is carved out of memory the tree keeps): the next path request rewrites it, so a path produced earlier stops proving its leaf and proves another one")
		})
	}
	if n < 1 {
		r.Anchor(rule, fmt.Errorf("unresolved anchor: store of MTPath.Nodes in the prover"))
	}
}

// shareLevel: a derived core forwards its entries to the root's ring, and whether an
// entry is kept is decided by the level enabler the derived core carries. It must
// be the parent's enabler itself (the same interface value: an AtomicLevel stays
// shared), not a snapshot of the level it holds at derivation time.
func shareLevel(r *engine.Run, rule string) {
	f := r.Fn(rule, pkgLog, "MemCore", "clone")
	if f == nil {
		return
	}
	n := 0
	engine.Instrs(f, func(in ssa.Instruction) {
		st, ok := in.(*ssa.Store)
		if !ok {
			return
		}
		fa, ok := st.Addr.(*ssa.FieldAddr)
		if !ok || engine.FieldOf(fa) == nil || engine.FieldOf(fa).Name() != "LevelEnabler" {
			return
		}
		if _, fresh := engine.AddrRoot(fa).(*ssa.Alloc); !fresh {
			return
		}
		n++
		fld := fieldLoadOf(st.Val)
		good := fld != nil && fld.Name() == "LevelEnabler"
		r.Check(good, rule, fn(f)+"|level enabler of the derived core", r.P.Pos(st.Pos()), "the derived core carries the parent's level enabler itself",
			"a derived core does not carry its parent's level enabler but something computed from it (a snapshot of the current level): when the buffer's level is lowered at run time, entries written through loggers derived earlier are still turned away and never reach the ring")
	})
	if n < 1 {
		r.Anchor(rule, fmt.Errorf("unresolved anchor: level enabler of the derived core in %s", fn(f)))
	}
}

// cloneComplete: CloneNode is how the memory and layered stores keep and hand out
// nodes: the copy it builds has to carry every field of the node. A field that
// the copy does not get (a cached count added to the struct and maintained by the
// setters, say) is zero in every node that went through a store, while the node
// that was built in place has it - the trie then behaves differently through a
// second handle than through the one that wrote.
//
// Rule: in the CloneNode of every node type, every field of the struct is written
// on the copy: stored directly (or element-wise), or written by a method called
// on the copy.
func cloneComplete(r *engine.Run, rule string) {
	n := 0
	for _, f := range funcsOfPkg(r, pkgUtil) {
		if f.Parent() != nil || f.Name() != "CloneNode" || len(f.Blocks) == 0 || !nodeTypeNames[recvNamed(f)] {
			continue
		}
		// the copy: a heap Alloc of the receiver's struct type
		var cp *ssa.Alloc
		engine.Instrs(f, func(in ssa.Instruction) {
			if al, ok := in.(*ssa.Alloc); ok && al.Heap {
				if nm := namedOf(al.Type()); nm != nil && nm.Obj().Name() == recvNamed(f) {
					cp = al
				}
			}
		})
		if cp == nil {
			continue
		}
		st, ok := cp.Type().Underlying().(*types.Pointer).Elem().Underlying().(*types.Struct)
		if !ok {
			continue
		}
		n++
		covered := map[string]bool{}
		var mark func(v ssa.Value, depth int)
		mark = func(v ssa.Value, depth int) {
			for _, ref := range engine.Referrers(v) {
				switch x := ref.(type) {
				case *ssa.FieldAddr:
					if x.X == v {
						if fld := engine.FieldOf(x); fld != nil {
							written := false
							var w func(a ssa.Value, d int)
							w = func(a ssa.Value, d int) {
								for _, r2 := range engine.Referrers(a) {
									switch y := r2.(type) {
									case *ssa.Store:
										if y.Addr == a {
											written = true
										}
									case *ssa.IndexAddr:
										if d < 2 {
											w(y, d+1)
										}
									}
								}
							}
							w(x, 0)
							if written {
								covered[fld.Name()] = true
							}
						}
					}
				case *ssa.Call:
					// a method called on the copy: the receiver fields it stores to
					if g := x.Call.StaticCallee(); g != nil && len(x.Call.Args) > 0 && x.Call.Args[0] == v && len(g.Blocks) > 0 {
						engine.Instrs(g, func(in2 ssa.Instruction) {
							if s2, ok := in2.(*ssa.Store); ok {
								if fa, ok := s2.Addr.(*ssa.FieldAddr); ok && engine.AddrRoot(fa) == ssa.Value(g.Params[0]) {
									if fld := engine.FieldOf(fa); fld != nil {
										covered[fld.Name()] = true
									}
								}
								if ia, ok := s2.Addr.(*ssa.IndexAddr); ok {
									if fa, ok := ia.X.(*ssa.FieldAddr); ok && engine.AddrRoot(fa) == ssa.Value(g.Params[0]) {
										if fld := engine.FieldOf(fa); fld != nil {
											covered[fld.Name()] = true
										}
									}
								}
							}
						})
					}
				}
			}
		}
		mark(cp, 0)
		for _, ref := range engine.Referrers(cp) {
			if s2, ok := ref.(*ssa.Store); ok && s2.Addr == ssa.Value(cp) {
				// clone := *fn: every field starts as the source's
				for i := 0; i < st.NumFields(); i++ {
					covered[st.Field(i).Name()] = true
				}
			}
		}
		var missing []string
		for i := 0; i < st.NumFields(); i++ {
			if !covered[st.Field(i).Name()] {
				missing = append(missing, st.Field(i).Name())
			}
		}
		r.Check(len(missing) == 0, rule, fn(f)+"|every field copied", r.P.Pos(f.Pos()), fmt.Sprintf("all %d fields of the node are written on the copy", st.NumFields()),
			fn(f)+" does not give the copy the field(s) "+strings.Join(missing, ", ")+": every node that went through a memory or layered store has them zero while the node built in place has them set, so an operation through a second trie handle (cold cache) decides differently than through the handle that wrote - e.g. a cached child count of zero skips every collapse, and the root then depends on the history")
	}
	if n < 3 {
		r.Anchor(rule, fmt.Errorf("unresolved anchor: %d CloneNode methods building a copy found", n))
	}
}

// surveyComplete (clause of DOM-survey): once the survey has found the node it was
// handed, what it returns is nil or an error it tested not to be the absent-node
// sentinel: an absent child has been recorded in the list, and handing its
// ErrNodeNotFound up makes GetAllMissingNodes drop the whole list.
func surveyReturns(r *engine.Run, rule string, survey *ssa.Function, lookups []*ssa.Call) {
	o := ord{}
	for _, ret := range engine.Returns(survey) {
		if len(ret.Results) != 1 {
			continue
		}
		ev := resultValue(ret, 0)
		if nilConst(ev) {
			continue
		}
		// the lookup's own error path
		own := false
		for _, l := range lookups {
			if ex, ok := ev.(*ssa.Extract); ok && ex.Tuple == ssa.Value(l) {
				own = true
			}
		}
		if own {
			continue
		}
		good := false
		if facts, ok := engine.FactsOn(survey, ret.Block()); ok {
			for _, ft := range facts {
				if ft.Kind != "eq" || ft.Truth {
					continue
				}
				for _, pr := range [][2]ssa.Value{{ft.A, ft.B}, {ft.B, ft.A}} {
					if pr[0] != ev {
						continue
					}
					if ld, ok := pr[1].(*ssa.UnOp); ok {
						if g, ok := ld.X.(*ssa.Global); ok && g.Name() == "ErrNodeNotFound" {
							good = true
						}
					}
				}
			}
		}
		r.Check(good, rule, o.next(fn(survey)+"|error handed up"), r.P.Pos(ret.Pos()), "an error of a child's survey is handed up only where it tested not to be the absent-node sentinel",
			"the survey hands a child's error up without having excluded the absent-node sentinel: the absent child was recorded in the list, but its ErrNodeNotFound travels to GetAllMissingNodes, which then returns the error and drops the list (for a trie whose root is an extension over the absent node: no missing keys reported although HasMissingNodes says true)")
	}
}

// lockBatch / kvOps: the storage adapter the weighted trie commits through. Commit
// saves the subtrees of a branch root from parallel goroutines into one batch, so
// the batch's Put and Delete hold its mutex; and each adapter operation maps to
// the pebble operation of the same meaning (Put -> Set, Delete -> Delete - not
// SingleDelete, which is only sound for keys written exactly once, and nodes are
// re-written under the same hash by every commit that saves them again).
func kvAdapter(r *engine.Run, rule string) {
	const pkgKV = "core/util/storage/kv"
	n := 0
	for _, f := range funcsOfPkg(r, pkgKV) {
		if len(f.Blocks) == 0 || f.Parent() != nil {
			continue
		}
		rn := recvNamed(f)
		if rn != "batch" && rn != "PebbleAdapter" {
			continue
		}
		want := map[string]string{"Put": "Set", "Delete": "Delete", "Get": "Get"}[f.Name()]
		if want == "" {
			continue
		}
		var op *ssa.Call
		bad := ""
		var lock *ssa.Call
		engine.Instrs(f, func(in ssa.Instruction) {
			c, ok := in.(*ssa.Call)
			if !ok {
				return
			}
			if _, opn, isLock := engine.LockOp(c); isLock && opn == "Lock" {
				lock = c
			}
			sc := c.Call.StaticCallee()
			if sc == nil || sc.Pkg == nil || !strings.Contains(sc.Pkg.Pkg.Path(), "cockroachdb/pebble") {
				return
			}
			if sc.Name() == want {
				op = c
			} else if sc.Name() != "Close" {
				bad = sc.Name()
			}
		})
		n++
		r.Check(op != nil && bad == "", rule, fn(f)+"|pebble operation", r.P.Pos(f.Pos()), f.Name()+" maps to pebble's "+want,
			fn(f)+" does not map to pebble's "+want+" (calls "+bad+"): the adapter's operation no longer means what the trie relies on - SingleDelete, for one, only removes the newest of several writes of a key, and nodes are written again under the same hash by every commit that saves them, so a deleted node stays readable or a rollback's purge leaves nodes behind")
		if rn == "batch" && f.Name() != "Get" && op != nil {
			r.Check(lock != nil && engine.InstrDominates(lock, op), rule, fn(f)+"|under the batch mutex", r.P.Pos(op.Pos()), "the batch operation runs under the batch's mutex",
				"the batch's "+f.Name()+" does not hold the batch's mutex: Commit saves the subtrees of a branch root from parallel goroutines into one pebble batch, which is not safe for concurrent use - records are lost or the batch is corrupted")
		}
	}
	if n < 4 {
		r.Anchor(rule, fmt.Errorf("unresolved anchor: %d adapter operations found in %s", n, pkgKV))
	}
}
