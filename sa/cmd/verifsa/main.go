package main

import (
	"flag"
	"fmt"
	"os"
	"os/exec"
	"strings"
	"time"

	"golang.org/x/tools/go/ssa"

	"verif/sa/engine"
	"verif/sa/rules"
)

func verifDir() string {
	if d := os.Getenv("VERIF_DIR"); d != "" {
		return d
	}
	return "/verif"
}

func main() {
	if len(os.Args) < 2 {
		fmt.Fprintln(os.Stderr, "usage: verifsa check -property Cnn [-tier quick|thorough] | dump pkg:[Recv:]Func ...")
		os.Exit(2)
	}
	switch os.Args[1] {
	case "check":
		fs := flag.NewFlagSet("check", flag.ExitOnError)
		prop := fs.String("property", "", "property id")
		tier := fs.String("tier", "quick", "quick|thorough")
		repo := fs.String("repo", "/repo", "repository root")
		tags := fs.String("tags", "", "extra build tags (comma separated)")
		var overlays multiFlag
		fs.Var(&overlays, "overlay", "relpath=file: analyse with the repo file replaced by the given file (in memory)")
		noev := fs.Bool("no-evidence", false, "do not write evidence/replay files (used by the sensitivity sweep)")
		fs.Parse(os.Args[2:])
		overlayArgs, noEvidence = overlays, *noev
		if t := os.Getenv("VERIF_TIER"); t != "" && *tier == "" {
			*tier = t
		}
		os.Exit(runCheck(*prop, *tier, *repo, *tags))
	case "checkall":
		fs := flag.NewFlagSet("checkall", flag.ExitOnError)
		repo := fs.String("repo", "/repo", "repository root")
		tags := fs.String("tags", "", "extra build tags (comma separated)")
		var overlays multiFlag
		fs.Var(&overlays, "overlay", "relpath=file")
		fs.Parse(os.Args[2:])
		overlayArgs, noEvidence = overlays, true
		os.Exit(runCheckAll(*repo, *tags))
	case "sweepall":
		fs := flag.NewFlagSet("sweepall", flag.ExitOnError)
		repo := fs.String("repo", "/repo", "repository root")
		out := fs.String("out", "/verif/evidence/global_sensitivity.json", "result file")
		per := fs.Int("per-file", 400, "maximum number of edits per file")
		par := fs.Int("parallel", 8, "analyses in parallel")
		only := fs.String("only", "", "restrict to files whose repo-relative path contains this string")
		fs.Parse(os.Args[2:])
		sweepOnly = *only
		os.Exit(runSweepAll(*repo, *out, *per, *par))
	case "list":
		for _, id := range rules.IDs() {
			fmt.Println(id)
		}
	case "dump":
		t0 := time.Now()
		p, err := engine.Load(engine.Config{Dir: os.Getenv("VERIFSA_REPO")})
		if err != nil {
			fmt.Fprintln(os.Stderr, err)
			os.Exit(2)
		}
		fmt.Fprintf(os.Stderr, "loaded in %.1fs\n", time.Since(t0).Seconds())
		for _, spec := range os.Args[2:] {
			parts := strings.Split(spec, ":")
			recv := ""
			name := parts[1]
			if len(parts) == 3 {
				recv, name = parts[1], parts[2]
			}
			f, err := p.Func(parts[0], recv, name)
			if err != nil {
				fmt.Fprintln(os.Stderr, err)
				continue
			}
			var dump func(f *ssa.Function)
			dump = func(f *ssa.Function) {
				f.WriteTo(os.Stdout)
				for _, a := range f.AnonFuncs {
					dump(a)
				}
			}
			dump(f)
		}
	default:
		fmt.Fprintln(os.Stderr, "unknown command")
		os.Exit(2)
	}
}

type multiFlag []string

func (m *multiFlag) String() string     { return strings.Join(*m, ",") }
func (m *multiFlag) Set(s string) error { *m = append(*m, s); return nil }

var (
	overlayArgs []string
	noEvidence  bool
)

func runCheck(prop, tier, repo, tags string) (code int) {
	c := rules.Registry[prop]
	if c == nil {
		fmt.Fprintf(os.Stderr, "verifsa: unknown property %q\n", prop)
		return 2
	}
	defer func() {
		if e := recover(); e != nil {
			fmt.Fprintf(os.Stderr, "verifsa: analyser panic: %v\n", e)
			panic(e)
		}
	}()
	cfg := engine.Config{Dir: repo}
	if tags != "" {
		cfg.Tags = strings.Split(tags, ",")
	}
	if len(overlayArgs) > 0 {
		cfg.Overlay = map[string][]byte{}
		for _, o := range overlayArgs {
			i := strings.Index(o, "=")
			if i < 0 {
				fmt.Fprintf(os.Stderr, "verifsa: bad -overlay %q\n", o)
				return 2
			}
			b, err := os.ReadFile(o[i+1:])
			if err != nil {
				fmt.Fprintf(os.Stderr, "verifsa: %v\n", err)
				return 2
			}
			cfg.Overlay[repo+"/"+o[:i]] = b
		}
	}
	p, err := engine.Load(cfg)
	if err != nil {
		fmt.Fprintf(os.Stderr, "verifsa: infrastructure failure: %v\n", err)
		return 2
	}
	r := engine.NewRun(prop, tier, p)
	c.Run(r)
	r.NoEvidence = noEvidence
	extra := map[string]any{}
	tagFail := false
	if tier == "thorough" && os.Getenv("VERIFSA_CHILD") == "" && !noEvidence {
		// (a) the same obligations under the build tags that change core/util's file set
		self, _ := os.Executable()
		var cfgs []map[string]any
		for _, tg := range []string{"integration_tests", "dev"} {
			cmd := exec.Command(self, "check", "-property", prop, "-tier", "quick", "-no-evidence", "-repo", repo, "-tags", tg)
			cmd.Env = append(os.Environ(), "VERIFSA_CHILD=1")
			out, err := cmd.CombinedOutput()
			code := 0
			if ee, ok := err.(*exec.ExitError); ok {
				code = ee.ExitCode()
			} else if err != nil {
				code = 2
			}
			last := ""
			for _, l := range strings.Split(strings.TrimSpace(string(out)), "\n") {
				if strings.HasPrefix(l, "verifsa ") {
					last = l
				}
			}
			cfgs = append(cfgs, map[string]any{"tags": "verif," + tg, "exit": code, "summary": last})
			if code != 0 {
				tagFail = true
				fmt.Printf("build configuration tags=%s:\n%s\n", tg, string(out))
			}
		}
		extra["build_configs"] = cfgs
		// (b) sensitivity sweep
		funcs := r.FuncList
		nfiles := map[string]bool{}
		for _, f := range funcs {
			if f.Syntax() != nil {
				nfiles[p.Fset.Position(f.Syntax().Pos()).Filename] = true
			}
		}
		per := 60
		if len(nfiles) > 0 && 420/len(nfiles) > per {
			per = 420 / len(nfiles)
		}
		sw := runSweep(prop, repo, funcs, p, per)
		extra["sensitivity"] = sw
		fmt.Printf("sensitivity sweep: %d mutants, %d type-check, %d reported by this check, %d only by other checks, %d by none (%.0fs)\n", sw.Mutants, sw.Compiled, sw.Killed, sw.KilledElsewhere, len(sw.Unkilled), sw.Seconds)
		// (c) cross-reference runs of generic tools (context only)
		extra["cross_reference"] = crossRef(repo, c.Pkgs)
	}
	s := r.Finish(verifDir(), extra)
	if tagFail && s.Exit == 0 {
		fmt.Printf("VIOLATION property=%s replay=%s\n", prop, "(see the build-configuration output above)")
		return 1
	}
	return s.Exit
}

// crossRef runs the generic tools on the anchor packages that build here and
// records how much they say (context only; never gating).
func crossRef(repo string, pkgs []string) map[string]any {
	out := map[string]any{}
	var targets []string
	for _, p := range pkgs {
		if p == "core/util" {
			continue // cannot be loaded by the generic tools (cgo dependency does not compile)
		}
		targets = append(targets, "./"+p+"/...")
	}
	if len(targets) == 0 {
		out["note"] = "anchor package core/util cannot be loaded by go vet / staticcheck / errcheck in this sandbox"
		return out
	}
	run := func(name string, args ...string) {
		cmd := exec.Command(name, append(args, targets...)...)
		cmd.Dir = repo
		cmd.Env = append(os.Environ(), "GOFLAGS=-mod=mod", "GOPROXY=off", "GOSUMDB=off", "GOTOOLCHAIN=local", "GOWORK=off")
		done := make(chan []byte, 1)
		go func() { b, _ := cmd.CombinedOutput(); done <- b }()
		select {
		case b := <-done:
			lines := strings.Split(strings.TrimSpace(string(b)), "\n")
			if len(lines) == 1 && lines[0] == "" {
				lines = nil
			}
			if len(lines) > 8 {
				lines = append(lines[:8], fmt.Sprintf("... %d more", len(lines)-8))
			}
			out[name] = map[string]any{"lines": lines}
		case <-time.After(120 * time.Second):
			if cmd.Process != nil {
				cmd.Process.Kill()
			}
			out[name] = "timeout"
		}
	}
	run("go", "vet")
	run("staticcheck")
	run("errcheck")
	return out
}
