package main

import (
	"flag"
	"fmt"
	"os"
	"strings"
	"time"

	"golang.org/x/tools/go/ssa"

	"verif/sa/engine"
	"verif/sa/rules"
)

func verifDir() string {
	if d := os.Getenv("VERIF_DIR"); d != "" {
		return d
	}
	return "/verif"
}

func main() {
	if len(os.Args) < 2 {
		fmt.Fprintln(os.Stderr, "usage: verifsa check -property Cnn [-tier quick|thorough] | dump pkg:[Recv:]Func ...")
		os.Exit(2)
	}
	switch os.Args[1] {
	case "check":
		fs := flag.NewFlagSet("check", flag.ExitOnError)
		prop := fs.String("property", "", "property id")
		tier := fs.String("tier", "quick", "quick|thorough")
		repo := fs.String("repo", "/repo", "repository root")
		tags := fs.String("tags", "", "extra build tags (comma separated)")
		var overlays multiFlag
		fs.Var(&overlays, "overlay", "relpath=file: analyse with the repo file replaced by the given file (in memory)")
		noev := fs.Bool("no-evidence", false, "do not write evidence/replay files (used by the sensitivity sweep)")
		fs.Parse(os.Args[2:])
		overlayArgs, noEvidence = overlays, *noev
		if t := os.Getenv("VERIF_TIER"); t != "" && *tier == "" {
			*tier = t
		}
		os.Exit(runCheck(*prop, *tier, *repo, *tags))
	case "list":
		for _, id := range rules.IDs() {
			fmt.Println(id)
		}
	case "dump":
		t0 := time.Now()
		p, err := engine.Load(engine.Config{})
		if err != nil {
			fmt.Fprintln(os.Stderr, err)
			os.Exit(2)
		}
		fmt.Fprintf(os.Stderr, "loaded in %.1fs\n", time.Since(t0).Seconds())
		for _, spec := range os.Args[2:] {
			parts := strings.Split(spec, ":")
			recv := ""
			name := parts[1]
			if len(parts) == 3 {
				recv, name = parts[1], parts[2]
			}
			f, err := p.Func(parts[0], recv, name)
			if err != nil {
				fmt.Fprintln(os.Stderr, err)
				continue
			}
			var dump func(f *ssa.Function)
			dump = func(f *ssa.Function) {
				f.WriteTo(os.Stdout)
				for _, a := range f.AnonFuncs {
					dump(a)
				}
			}
			dump(f)
		}
	default:
		fmt.Fprintln(os.Stderr, "unknown command")
		os.Exit(2)
	}
}

type multiFlag []string

func (m *multiFlag) String() string     { return strings.Join(*m, ",") }
func (m *multiFlag) Set(s string) error { *m = append(*m, s); return nil }

var (
	overlayArgs []string
	noEvidence  bool
)

func runCheck(prop, tier, repo, tags string) (code int) {
	c := rules.Registry[prop]
	if c == nil {
		fmt.Fprintf(os.Stderr, "verifsa: unknown property %q\n", prop)
		return 2
	}
	defer func() {
		if e := recover(); e != nil {
			fmt.Fprintf(os.Stderr, "verifsa: analyser panic: %v\n", e)
			panic(e)
		}
	}()
	cfg := engine.Config{Dir: repo}
	if tags != "" {
		cfg.Tags = strings.Split(tags, ",")
	}
	if len(overlayArgs) > 0 {
		cfg.Overlay = map[string][]byte{}
		for _, o := range overlayArgs {
			i := strings.Index(o, "=")
			if i < 0 {
				fmt.Fprintf(os.Stderr, "verifsa: bad -overlay %q\n", o)
				return 2
			}
			b, err := os.ReadFile(o[i+1:])
			if err != nil {
				fmt.Fprintf(os.Stderr, "verifsa: %v\n", err)
				return 2
			}
			cfg.Overlay[repo+"/"+o[:i]] = b
		}
	}
	p, err := engine.Load(cfg)
	if err != nil {
		fmt.Fprintf(os.Stderr, "verifsa: infrastructure failure: %v\n", err)
		return 2
	}
	r := engine.NewRun(prop, tier, p)
	c.Run(r)
	r.NoEvidence = noEvidence
	s := r.Finish(verifDir(), nil)
	return s.Exit
}
