package main

import (
	"bytes"
	"fmt"
	"go/ast"
	"go/parser"
	"go/printer"
	"go/token"
	"os"
	"os/exec"
	"path/filepath"
	"sort"
	"strings"
	"sync"
	"time"

	"golang.org/x/tools/go/ssa"

	"verif/sa/engine"
)

// The sensitivity sweep measures the checker, not the repository: for every
// function a check analysed it applies canonical breaking edits in memory
// (overlay), re-runs the same check in a sub-process and records whether the
// edit is reported. Nothing is executed and nothing is written under /repo.

type mutant struct {
	File string // repo-relative
	Line int
	Op   string
	Desc string
	Src  []byte
}

type funcRange struct {
	file       string
	start, end int // byte offsets
	name       string
}

// mutantsFor generates the mutants of one file restricted to the given ranges.
func mutantsFor(absFile, rel string, ranges []funcRange, limit int) []mutant {
	src, err := os.ReadFile(absFile)
	if err != nil {
		return nil
	}
	var out []mutant
	// Each mutant re-parses the file so that edits never interfere.
	type site struct {
		idx  int
		op   string
		desc string
	}
	count := func() (sites []site) {
		fset := token.NewFileSet()
		f, err := parser.ParseFile(fset, absFile, src, parser.ParseComments)
		if err != nil {
			return nil
		}
		i := 0
		inRange := func(n ast.Node) bool {
			off := fset.Position(n.Pos()).Offset
			for _, r := range ranges {
				if off >= r.start && off < r.end {
					return true
				}
			}
			return false
		}
		applyTo(f, func(n ast.Node, replace func(ast.Node)) bool {
			if n == nil || !inRange(n) {
				return true
			}
			for _, op := range opsFor(n) {
				if replace == nil && (op == "delete-call" || op == "delete-defer" || op == "delete-field-assign" || op == "delete-guard" || op == "unwrap-copy") {
					continue
				}
				sites = append(sites, site{i, op, describe(fset, n)})
			}
			i++
			return true
		})
		return sites
	}
	sites := count()
	if limit > 0 && len(sites) > limit {
		// deterministic thinning
		step := float64(len(sites)) / float64(limit)
		var thin []site
		for k := 0; k < limit; k++ {
			thin = append(thin, sites[int(float64(k)*step)])
		}
		sites = thin
	}
	for _, s := range sites {
		fset := token.NewFileSet()
		f, err := parser.ParseFile(fset, absFile, src, parser.ParseComments)
		if err != nil {
			continue
		}
		i := 0
		var line int
		applied := false
		inRange := func(n ast.Node) bool {
			off := fset.Position(n.Pos()).Offset
			for _, r := range ranges {
				if off >= r.start && off < r.end {
					return true
				}
			}
			return false
		}
		applyTo(f, func(n ast.Node, replace func(ast.Node)) bool {
			if n == nil || !inRange(n) {
				return true
			}
			if i == s.idx && !applied {
				line = fset.Position(n.Pos()).Line
				applied = apply(n, s.op, replace)
			}
			i++
			return true
		})
		if !applied {
			continue
		}
		var buf bytes.Buffer
		if err := printer.Fprint(&buf, fset, f); err != nil {
			continue
		}
		out = append(out, mutant{File: rel, Line: line, Op: s.op, Desc: s.desc, Src: buf.Bytes()})
	}
	return out
}

func describe(fset *token.FileSet, n ast.Node) string {
	var buf bytes.Buffer
	printer.Fprint(&buf, fset, n)
	s := strings.Join(strings.Fields(buf.String()), " ")
	if len(s) > 90 {
		s = s[:90] + "..."
	}
	return s
}

// opsFor lists the mutation operators applicable to a node.
func opsFor(n ast.Node) []string {
	switch x := n.(type) {
	case *ast.ExprStmt:
		if _, ok := x.X.(*ast.CallExpr); ok {
			return []string{"delete-call"}
		}
	case *ast.DeferStmt:
		return []string{"delete-defer"}
	case *ast.AssignStmt:
		if x.Tok == token.ASSIGN && len(x.Lhs) == 1 {
			if _, ok := x.Lhs[0].(*ast.SelectorExpr); ok {
				return []string{"delete-field-assign"}
			}
			if _, ok := x.Lhs[0].(*ast.IndexExpr); ok {
				return []string{"delete-field-assign"}
			}
		}
		if x.Tok == token.ADD_ASSIGN || x.Tok == token.SUB_ASSIGN {
			return []string{"delete-field-assign"}
		}
	case *ast.IfStmt:
		ops := []string{"negate-if"}
		if x.Else == nil && endsInReturn(x.Body) {
			ops = append(ops, "delete-guard")
		}
		return ops
	case *ast.BinaryExpr:
		switch x.Op {
		case token.GEQ, token.GTR, token.LEQ, token.LSS, token.EQL, token.NEQ, token.LAND, token.LOR, token.ADD, token.SUB:
			return []string{"flip-op"}
		}
	case *ast.CallExpr:
		if se, ok := x.Fun.(*ast.SelectorExpr); ok && len(x.Args) == 0 {
			switch se.Sel.Name {
			case "Clone", "CloneNode", "Copy":
				return []string{"unwrap-copy"}
			}
		}
		if id, ok := x.Fun.(*ast.Ident); ok && id.Name == "concat" {
			return []string{"concat-to-append"}
		}
	case *ast.SelectorExpr:
		if x.Sel.Name == "BigEndian" || x.Sel.Name == "LittleEndian" {
			return []string{"swap-endian"}
		}
		if x.Sel.Name == "RLock" || x.Sel.Name == "Lock" {
			return nil
		}
	case *ast.BasicLit:
		if x.Kind == token.INT && (x.Value == "16" || x.Value == "32" || x.Value == "40" || x.Value == "72" || x.Value == "1") {
			return []string{"off-by-one"}
		}
	case *ast.Ident:
		if x.Name == "true" || x.Name == "false" {
			return []string{"flip-bool"}
		}
	}
	return nil
}

func endsInReturn(b *ast.BlockStmt) bool {
	if b == nil || len(b.List) == 0 {
		return false
	}
	_, ok := b.List[len(b.List)-1].(*ast.ReturnStmt)
	return ok
}

// applyTo walks the file like ast.Inspect but lets the callback replace the
// current node inside its parent (statement lists and expression slots).
func applyTo(f *ast.File, fn func(n ast.Node, replace func(ast.Node)) bool) {
	var walk func(n ast.Node, replace func(ast.Node))
	walk = func(n ast.Node, replace func(ast.Node)) {
		if n == nil {
			return
		}
		if !fn(n, replace) {
			return
		}
		switch x := n.(type) {
		case *ast.File:
			for _, d := range x.Decls {
				walk(d, nil)
			}
		case *ast.FuncDecl:
			if x.Body != nil {
				walk(x.Body, nil)
			}
		case *ast.GenDecl:
			for _, s := range x.Specs {
				walk(s, nil)
			}
		case *ast.ValueSpec:
			for i := range x.Values {
				i := i
				walk(x.Values[i], func(r ast.Node) { x.Values[i] = r.(ast.Expr) })
			}
		case *ast.BlockStmt:
			for i := range x.List {
				i := i
				walk(x.List[i], func(r ast.Node) { x.List[i] = r.(ast.Stmt) })
			}
		case *ast.IfStmt:
			if x.Init != nil {
				walk(x.Init, func(r ast.Node) { x.Init = r.(ast.Stmt) })
			}
			walk(x.Cond, func(r ast.Node) { x.Cond = r.(ast.Expr) })
			walk(x.Body, nil)
			if x.Else != nil {
				walk(x.Else, nil)
			}
		case *ast.ForStmt:
			if x.Init != nil {
				walk(x.Init, func(r ast.Node) { x.Init = r.(ast.Stmt) })
			}
			if x.Cond != nil {
				walk(x.Cond, func(r ast.Node) { x.Cond = r.(ast.Expr) })
			}
			if x.Post != nil {
				walk(x.Post, func(r ast.Node) { x.Post = r.(ast.Stmt) })
			}
			walk(x.Body, nil)
		case *ast.RangeStmt:
			walk(x.X, func(r ast.Node) { x.X = r.(ast.Expr) })
			walk(x.Body, nil)
		case *ast.SwitchStmt:
			if x.Init != nil {
				walk(x.Init, func(r ast.Node) { x.Init = r.(ast.Stmt) })
			}
			if x.Tag != nil {
				walk(x.Tag, func(r ast.Node) { x.Tag = r.(ast.Expr) })
			}
			walk(x.Body, nil)
		case *ast.TypeSwitchStmt:
			walk(x.Body, nil)
		case *ast.SelectStmt:
			walk(x.Body, nil)
		case *ast.CaseClause:
			for i := range x.Body {
				i := i
				walk(x.Body[i], func(r ast.Node) { x.Body[i] = r.(ast.Stmt) })
			}
		case *ast.CommClause:
			for i := range x.Body {
				i := i
				walk(x.Body[i], func(r ast.Node) { x.Body[i] = r.(ast.Stmt) })
			}
		case *ast.ExprStmt:
			walk(x.X, func(r ast.Node) { x.X = r.(ast.Expr) })
		case *ast.DeferStmt:
			walk(x.Call, nil)
		case *ast.GoStmt:
			walk(x.Call, nil)
		case *ast.ReturnStmt:
			for i := range x.Results {
				i := i
				walk(x.Results[i], func(r ast.Node) { x.Results[i] = r.(ast.Expr) })
			}
		case *ast.AssignStmt:
			for i := range x.Rhs {
				i := i
				walk(x.Rhs[i], func(r ast.Node) { x.Rhs[i] = r.(ast.Expr) })
			}
		case *ast.DeclStmt:
			walk(x.Decl, nil)
		case *ast.SendStmt:
			walk(x.Value, func(r ast.Node) { x.Value = r.(ast.Expr) })
		case *ast.IncDecStmt:
		case *ast.CallExpr:
			walk(x.Fun, func(r ast.Node) { x.Fun = r.(ast.Expr) })
			for i := range x.Args {
				i := i
				walk(x.Args[i], func(r ast.Node) { x.Args[i] = r.(ast.Expr) })
			}
		case *ast.BinaryExpr:
			walk(x.X, func(r ast.Node) { x.X = r.(ast.Expr) })
			walk(x.Y, func(r ast.Node) { x.Y = r.(ast.Expr) })
		case *ast.UnaryExpr:
			walk(x.X, func(r ast.Node) { x.X = r.(ast.Expr) })
		case *ast.ParenExpr:
			walk(x.X, func(r ast.Node) { x.X = r.(ast.Expr) })
		case *ast.SelectorExpr:
			walk(x.X, func(r ast.Node) { x.X = r.(ast.Expr) })
		case *ast.IndexExpr:
			walk(x.X, func(r ast.Node) { x.X = r.(ast.Expr) })
			walk(x.Index, func(r ast.Node) { x.Index = r.(ast.Expr) })
		case *ast.SliceExpr:
			walk(x.X, func(r ast.Node) { x.X = r.(ast.Expr) })
			if x.Low != nil {
				walk(x.Low, func(r ast.Node) { x.Low = r.(ast.Expr) })
			}
			if x.High != nil {
				walk(x.High, func(r ast.Node) { x.High = r.(ast.Expr) })
			}
		case *ast.TypeAssertExpr:
			walk(x.X, func(r ast.Node) { x.X = r.(ast.Expr) })
		case *ast.StarExpr:
			walk(x.X, func(r ast.Node) { x.X = r.(ast.Expr) })
		case *ast.CompositeLit:
			for i := range x.Elts {
				i := i
				walk(x.Elts[i], func(r ast.Node) { x.Elts[i] = r.(ast.Expr) })
			}
		case *ast.KeyValueExpr:
			walk(x.Value, func(r ast.Node) { x.Value = r.(ast.Expr) })
		case *ast.FuncLit:
			walk(x.Body, nil)
		}
	}
	walk(f, nil)
}

func apply(n ast.Node, op string, replace func(ast.Node)) bool {
	switch op {
	case "delete-call", "delete-defer", "delete-field-assign", "delete-guard":
		if replace == nil {
			return false
		}
		replace(&ast.EmptyStmt{})
		return true
	case "negate-if":
		x := n.(*ast.IfStmt)
		x.Cond = &ast.UnaryExpr{Op: token.NOT, X: &ast.ParenExpr{X: x.Cond}}
		return true
	case "flip-op":
		x := n.(*ast.BinaryExpr)
		x.Op = map[token.Token]token.Token{token.GEQ: token.GTR, token.GTR: token.GEQ, token.LEQ: token.LSS, token.LSS: token.LEQ,
			token.EQL: token.NEQ, token.NEQ: token.EQL, token.LAND: token.LOR, token.LOR: token.LAND, token.ADD: token.SUB, token.SUB: token.ADD}[x.Op]
		return true
	case "unwrap-copy":
		if replace == nil {
			return false
		}
		replace(n.(*ast.CallExpr).Fun.(*ast.SelectorExpr).X)
		return true
	case "concat-to-append":
		n.(*ast.CallExpr).Fun.(*ast.Ident).Name = "append"
		return true
	case "swap-endian":
		x := n.(*ast.SelectorExpr)
		if x.Sel.Name == "BigEndian" {
			x.Sel.Name = "LittleEndian"
		} else {
			x.Sel.Name = "BigEndian"
		}
		return true
	case "off-by-one":
		x := n.(*ast.BasicLit)
		x.Value = map[string]string{"16": "15", "32": "33", "40": "41", "72": "71", "1": "2"}[x.Value]
		return true
	case "flip-bool":
		x := n.(*ast.Ident)
		if x.Name == "true" {
			x.Name = "false"
		} else {
			x.Name = "true"
		}
		return true
	}
	return false
}

type sweepResult struct {
	Mutants         int               `json:"mutants"`
	Compiled        int               `json:"compiled"`
	Killed          int               `json:"killed"`
	PerOp           map[string][2]int `json:"per_operator_killed_of_compiled"`
	KilledElsewhere int               `json:"reported_only_by_other_checks"`
	Elsewhere       []string          `json:"reported_elsewhere"`
	Unkilled        []string          `json:"unkilled"`
	Seconds         float64           `json:"seconds"`
	KilledList      []string          `json:"killed_samples"`
}

// runSweep generates and evaluates the mutants for the functions analysed by
// the check.
func runSweep(prop, repo string, funcs []*ssa.Function, p *engine.Program, perFileLimit int) sweepResult {
	t0 := time.Now()
	byFile := map[string][]funcRange{}
	for _, f := range funcs {
		syn := f.Syntax()
		if syn == nil {
			continue
		}
		ps, pe := p.Fset.Position(syn.Pos()), p.Fset.Position(syn.End())
		if !strings.HasPrefix(ps.Filename, repo+"/") || strings.HasSuffix(ps.Filename, "_gen.go") {
			continue
		}
		byFile[ps.Filename] = append(byFile[ps.Filename], funcRange{ps.Filename, ps.Offset, pe.Offset, engine.FuncName(f)})
	}
	var files []string
	for f := range byFile {
		files = append(files, f)
	}
	sort.Strings(files)
	var all []mutant
	for _, f := range files {
		rel := strings.TrimPrefix(f, repo+"/")
		all = append(all, mutantsFor(f, rel, byFile[f], perFileLimit)...)
	}
	res := sweepResult{Mutants: len(all), PerOp: map[string][2]int{}}
	tmp, err := os.MkdirTemp("", "verifsa-sweep-")
	if err != nil {
		return res
	}
	defer os.RemoveAll(tmp)
	self, _ := os.Executable()
	type outcome struct {
		m    mutant
		code int
		by   []string
	}
	outs := make([]outcome, len(all))
	var wg sync.WaitGroup
	sem := make(chan struct{}, 6)
	for i := range all {
		wg.Add(1)
		sem <- struct{}{}
		go func(i int) {
			defer wg.Done()
			defer func() { <-sem }()
			m := all[i]
			path := filepath.Join(tmp, fmt.Sprintf("m%d.go", i))
			os.WriteFile(path, m.Src, 0o644)
			// all checks on one load: the edit counts as reported by this check when
			// this property is among them; other checks' reports are recorded too
			cmd := exec.Command(self, "checkall", "-repo", repo, "-overlay", m.File+"="+path)
			cmd.Env = append(os.Environ(), "VERIFSA_CHILD=1")
			outb, err := cmd.Output()
			code := 0
			if ee, ok := err.(*exec.ExitError); ok {
				code = ee.ExitCode()
			} else if err != nil {
				code = 2
			}
			os.Remove(path)
			var by []string
			for _, l := range strings.Split(string(outb), "\n") {
				if strings.HasPrefix(l, "REPORTED-BY: ") {
					if t := strings.TrimSpace(strings.TrimPrefix(l, "REPORTED-BY: ")); t != "" {
						by = strings.Split(t, ",")
					}
				}
			}
			if code != 2 {
				code = 0
				for _, id := range by {
					if id == prop {
						code = 1
					}
				}
			}
			outs[i] = outcome{m, code, by}
		}(i)
	}
	wg.Wait()
	for _, o := range outs {
		id := fmt.Sprintf("%s:%d %s: %s", o.m.File, o.m.Line, o.m.Op, o.m.Desc)
		switch o.code {
		case 2:
			continue // does not type-check: discarded
		case 1:
			res.Compiled++
			res.Killed++
			v := res.PerOp[o.m.Op]
			res.PerOp[o.m.Op] = [2]int{v[0] + 1, v[1] + 1}
			if len(res.KilledList) < 12 {
				res.KilledList = append(res.KilledList, id)
			}
		default:
			res.Compiled++
			v := res.PerOp[o.m.Op]
			res.PerOp[o.m.Op] = [2]int{v[0], v[1] + 1}
			if len(o.by) > 0 {
				res.KilledElsewhere++
				res.Elsewhere = append(res.Elsewhere, id+" -> "+strings.Join(o.by, ","))
			} else {
				res.Unkilled = append(res.Unkilled, id)
			}
		}
	}
	res.Seconds = time.Since(t0).Seconds()
	return res
}
