package main

import (
	"encoding/json"
	"fmt"
	"os"
	"os/exec"
	"path/filepath"
	"sort"
	"strings"
	"sync"
	"time"

	"verif/sa/engine"
	"verif/sa/rules"
)

// runCheckAll runs every registered check on one loaded program (no evidence)
// and prints "REPORTED-BY: <ids>". Exit 1 if any check reports, 2 on
// infrastructure failure (the variant does not type-check).
func runCheckAll(repo, tags string) int {
	cfg := engine.Config{Dir: repo}
	if tags != "" {
		cfg.Tags = strings.Split(tags, ",")
	}
	if len(overlayArgs) > 0 {
		cfg.Overlay = map[string][]byte{}
		for _, o := range overlayArgs {
			i := strings.Index(o, "=")
			if i < 0 {
				return 2
			}
			b, err := os.ReadFile(o[i+1:])
			if err != nil {
				return 2
			}
			cfg.Overlay[repo+"/"+o[:i]] = b
		}
	}
	p, err := engine.Load(cfg)
	if err != nil {
		fmt.Fprintf(os.Stderr, "verifsa: infrastructure failure: %v\n", err)
		return 2
	}
	var reported []string
	var first []string
	for _, id := range rules.IDs() {
		c := rules.Registry[id]
		code := func() (code int) {
			defer func() {
				if e := recover(); e != nil {
					code = 1 // a panic of a rule on a variant counts as "noticed"
					first = append(first, fmt.Sprintf("%s: analyser panic: %v", id, e))
				}
			}()
			r := engine.NewRun(id, "quick", p)
			c.Run(r)
			r.NoEvidence = true
			r.Quiet = true
			s := r.Finish(verifDir(), nil)
			if s.Exit == 1 && len(s.FirstLines) > 0 {
				first = append(first, id+": "+s.FirstLines[0])
			}
			return s.Exit
		}()
		if code != 0 {
			reported = append(reported, id)
		}
	}
	fmt.Printf("REPORTED-BY: %s\n", strings.Join(reported, ","))
	for _, l := range first {
		fmt.Println("  " + l)
	}
	if len(reported) > 0 {
		return 1
	}
	return 0
}

var sweepOnly string

type globalMutant struct {
	ID         string   `json:"mutant"`
	ReportedBy []string `json:"reported_by"`
	First      string   `json:"first_report,omitempty"`
}

// runSweepAll: the global sensitivity sweep. Every syntax-level breaking edit of
// every hand-written function of the five anchor packages is run through ALL
// checks (one load per edit). The result lists, per edit, which checks report
// it; edits no check reports are the blind spots of the whole suite.
func runSweepAll(repo, out string, perFile, par int) int {
	t0 := time.Now()
	p, err := engine.Load(engine.Config{Dir: repo})
	if err != nil {
		fmt.Fprintf(os.Stderr, "verifsa: infrastructure failure: %v\n", err)
		return 2
	}
	byFile := map[string][]funcRange{}
	for _, f := range p.RepoFuncs() {
		syn := f.Syntax()
		if syn == nil || f.Parent() != nil {
			continue
		}
		ps, pe := p.Fset.Position(syn.Pos()), p.Fset.Position(syn.End())
		if !strings.HasPrefix(ps.Filename, repo+"/") || strings.HasSuffix(ps.Filename, "_gen.go") || strings.HasSuffix(ps.Filename, "_test.go") {
			continue
		}
		if strings.Contains(ps.Filename, "/mocks/") || (sweepOnly != "" && !strings.Contains(strings.TrimPrefix(ps.Filename, repo+"/"), sweepOnly)) {
			continue
		}
		byFile[ps.Filename] = append(byFile[ps.Filename], funcRange{ps.Filename, ps.Offset, pe.Offset, engine.FuncName(f)})
	}
	var files []string
	for f := range byFile {
		files = append(files, f)
	}
	sort.Strings(files)
	var all []mutant
	for _, f := range files {
		all = append(all, mutantsFor(f, strings.TrimPrefix(f, repo+"/"), byFile[f], perFile)...)
	}
	fmt.Printf("global sweep: %d files, %d edits\n", len(files), len(all))
	tmp, err := os.MkdirTemp("", "verifsa-sweepall-")
	if err != nil {
		return 2
	}
	defer os.RemoveAll(tmp)
	self, _ := os.Executable()
	res := make([]*globalMutant, len(all))
	var wg sync.WaitGroup
	sem := make(chan struct{}, par)
	for i := range all {
		wg.Add(1)
		sem <- struct{}{}
		go func(i int) {
			defer wg.Done()
			defer func() { <-sem }()
			m := all[i]
			path := filepath.Join(tmp, fmt.Sprintf("m%d.go", i))
			os.WriteFile(path, m.Src, 0o644)
			cmd := exec.Command(self, "checkall", "-repo", repo, "-overlay", m.File+"="+path)
			cmd.Env = append(os.Environ(), "VERIFSA_CHILD=1")
			outb, err := cmd.Output()
			os.Remove(path)
			code := 0
			if ee, ok := err.(*exec.ExitError); ok {
				code = ee.ExitCode()
			} else if err != nil {
				code = 2
			}
			if code == 2 {
				return // does not type-check
			}
			gm := &globalMutant{ID: fmt.Sprintf("%s:%d %s: %s", m.File, m.Line, m.Op, m.Desc)}
			for _, l := range strings.Split(string(outb), "\n") {
				if strings.HasPrefix(l, "REPORTED-BY: ") {
					if s := strings.TrimSpace(strings.TrimPrefix(l, "REPORTED-BY: ")); s != "" {
						gm.ReportedBy = strings.Split(s, ",")
					}
				} else if strings.HasPrefix(l, "  ") && gm.First == "" {
					gm.First = strings.TrimSpace(l)
					if len(gm.First) > 220 {
						gm.First = gm.First[:220]
					}
				}
			}
			res[i] = gm
		}(i)
	}
	wg.Wait()
	var compiled, reported int
	var list []*globalMutant
	perProp := map[string]int{}
	for _, g := range res {
		if g == nil {
			continue
		}
		compiled++
		if len(g.ReportedBy) > 0 {
			reported++
			for _, id := range g.ReportedBy {
				perProp[id]++
			}
		}
		list = append(list, g)
	}
	doc := map[string]any{
		"what":            "global sensitivity sweep: every generated syntax-level breaking edit of the hand-written functions of the anchor packages, analysed (never executed) by all 20 checks; measures the checks, not the repository",
		"edits":           len(all),
		"type_check":      compiled,
		"reported_by_any": reported,
		"per_check":       perProp,
		"seconds":         time.Since(t0).Seconds(),
		"results":         list,
	}
	b, _ := json.MarshalIndent(doc, "", " ")
	if err := os.WriteFile(out, b, 0o644); err != nil {
		fmt.Fprintln(os.Stderr, err)
		return 2
	}
	fmt.Printf("global sweep: %d edits, %d type-check, %d reported by at least one check, %d by none (%.0fs) -> %s\n", len(all), compiled, reported, compiled-reported, time.Since(t0).Seconds(), out)
	return 0
}
