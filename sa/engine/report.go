package engine

import (
	"encoding/json"
	"fmt"
	"os"
	"path/filepath"
	"sort"
	"strconv"
	"strings"
	"time"

	"golang.org/x/tools/go/ssa"
)

// Verdicts of one obligation.
const (
	Discharged = "discharged"
	Violation  = "violation"
	Undecided  = "undecided"
	Unresolved = "unresolved-anchor"
	Known      = "known-finding"
	Info       = "info"
)

// Obligation is one rule instance decided on the current source.
type Obligation struct {
	Rule      string   `json:"rule"`
	Construct string   `json:"construct"`
	Pos       string   `json:"pos"`
	Verdict   string   `json:"verdict"`
	Detail    string   `json:"detail,omitempty"`
	Witness   []string `json:"witness,omitempty"`
	// Nontrivial: the decision needed more than resolving the anchor (a path,
	// dataflow or table comparison was actually computed).
	Nontrivial bool `json:"nontrivial"`
}

// Run collects the obligations of one property check.
type Run struct {
	Prop       string
	Tier       string
	P          *Program
	Obs        []Obligation
	Funcs      map[string]bool // functions analysed
	FuncList   []*ssa.Function
	CallSites  int
	Rules      map[string]string // rule -> text
	NotDec     []string          // clauses not decided
	Assume     []string
	start      time.Time
	minCount   map[string]int
	NoEvidence bool
	Quiet      bool // no output; the first report lines are returned in Summary.FirstLines
}

var procStart = time.Now()

func NewRun(prop, tier string, p *Program) *Run {
	return &Run{Prop: prop, Tier: tier, P: p, Funcs: map[string]bool{}, Rules: map[string]string{},
		start: procStart, minCount: map[string]int{}}
}

// Rule registers the text of a rule (printed in evidence).
func (r *Run) Rule(name, text string) { r.Rules[name] = text }

// Min demands at least n obligations of the rule (non-vacuity).
func (r *Run) Min(rule string, n int) { r.minCount[rule] = n }

func (r *Run) Touch(fs ...*ssa.Function) {
	for _, f := range fs {
		if f != nil {
			if !r.Funcs[FuncName(f)] {
				r.FuncList = append(r.FuncList, f)
			}
			r.Funcs[FuncName(f)] = true
		}
	}
}

func (r *Run) add(o Obligation) { r.Obs = append(r.Obs, o) }

func (r *Run) OK(rule, construct, pos, detail string) {
	r.add(Obligation{Rule: rule, Construct: construct, Pos: pos, Verdict: Discharged, Detail: detail, Nontrivial: true})
}
func (r *Run) Fail(rule, construct, pos, detail string, witness ...string) {
	r.add(Obligation{Rule: rule, Construct: construct, Pos: pos, Verdict: Violation, Detail: detail, Witness: witness, Nontrivial: true})
}
func (r *Run) Undec(rule, construct, pos, detail string) {
	r.add(Obligation{Rule: rule, Construct: construct, Pos: pos, Verdict: Undecided, Detail: detail, Nontrivial: true})
}
func (r *Run) Note(rule, construct, pos, detail string) {
	r.add(Obligation{Rule: rule, Construct: construct, Pos: pos, Verdict: Info, Detail: detail})
}

// Check records a discharged or violated obligation.
func (r *Run) Check(ok bool, rule, construct, pos, okDetail, failDetail string, witness ...string) bool {
	if ok {
		r.OK(rule, construct, pos, okDetail)
	} else {
		r.Fail(rule, construct, pos, failDetail, witness...)
	}
	return ok
}

// Anchor records an unresolved anchor; returns true when err == nil.
func (r *Run) Anchor(rule string, err error) bool {
	if err == nil {
		return true
	}
	r.add(Obligation{Rule: rule, Construct: err.Error(), Pos: "-", Verdict: Unresolved, Detail: "anchor of the rule does not resolve on this tree; the rule would pass vacuously"})
	return false
}

// Fn resolves a function anchor, recording an unresolved anchor on failure.
func (r *Run) Fn(rule, rel, recv, name string) *ssa.Function {
	f, err := r.P.Func(rel, recv, name)
	if !r.Anchor(rule, err) {
		return nil
	}
	if len(f.Blocks) == 0 {
		r.Anchor(rule, fmt.Errorf("unresolved anchor: %s has no body", FuncName(f)))
		return nil
	}
	r.Touch(f)
	return f
}

// ---- known findings -------------------------------------------------------

type KnownEntry struct {
	Property  string `json:"property"`
	Rule      string `json:"rule"`
	Construct string `json:"construct"`
	What      string `json:"what"`
	Witness   string `json:"witness,omitempty"`
	Commit    string `json:"commit,omitempty"`
}

type KnownFile struct {
	Known []KnownEntry `json:"known"`
	Fixed []KnownEntry `json:"fixed"`
}

func loadKnown(path string) (*KnownFile, error) {
	kf := &KnownFile{}
	b, err := os.ReadFile(path)
	if err != nil {
		if os.IsNotExist(err) {
			return kf, nil
		}
		return nil, err
	}
	if err := json.Unmarshal(b, kf); err != nil {
		return nil, err
	}
	return kf, nil
}

// ---- finishing ------------------------------------------------------------

type Summary struct {
	Obligations int
	Discharged  int
	KnownN      int
	Violations  int
	Exit        int
	FirstLines  []string
}

// Finish sorts, applies non-vacuity minimums, matches known findings, writes
// evidence and replay files and prints the output contract. It returns the
// process exit code.
func (r *Run) Finish(verifDir string, extra map[string]any) Summary {
	// non-vacuity
	counts := map[string]int{}
	for _, o := range r.Obs {
		if o.Verdict != Info {
			counts[o.Rule]++
		}
	}
	var rules []string
	for k := range r.minCount {
		rules = append(rules, k)
	}
	sort.Strings(rules)
	for _, k := range rules {
		if os.Getenv("VERIFSA_MINS") != "" {
			fmt.Fprintf(os.Stderr, "MIN %s %s: %d sites, minimum %d\n", r.Prop, k, counts[k], r.minCount[k])
		}
		if counts[k] < r.minCount[k] {
			r.add(Obligation{Rule: k, Construct: "non-vacuity", Pos: "-", Verdict: Unresolved,
				Detail: fmt.Sprintf("rule matched %d sites, at least %d were confirmed by reading; the rule no longer sees what it is meant to check", counts[k], r.minCount[k])})
		}
	}
	sort.SliceStable(r.Obs, func(i, j int) bool {
		a, b := r.Obs[i], r.Obs[j]
		if a.Rule != b.Rule {
			return a.Rule < b.Rule
		}
		if a.Construct != b.Construct {
			return a.Construct < b.Construct
		}
		return posLess(a.Pos, b.Pos)
	})
	kf, err := loadKnown(filepath.Join(verifDir, "known_findings.json"))
	if err != nil {
		fmt.Fprintf(os.Stderr, "verifsa: cannot read known_findings.json: %v\n", err)
		return Summary{Exit: 2}
	}
	known := map[string]KnownEntry{}
	for _, k := range kf.Known {
		if k.Property == r.Prop {
			known[k.Rule+"\x00"+k.Construct] = k
		}
	}
	var s Summary
	replayDir := filepath.Join(verifDir, "evidence", "replay")
	if r.NoEvidence {
		replayDir = filepath.Join(os.TempDir(), fmt.Sprintf("verifsa-replay-%d", os.Getpid()))
		defer os.RemoveAll(replayDir)
	}
	os.MkdirAll(replayDir, 0o755)
	old, _ := filepath.Glob(filepath.Join(replayDir, r.Prop+"-*.json"))
	for _, f := range old {
		os.Remove(f)
	}
	var lines []string
	distinct := map[string]bool{}
	for i := range r.Obs {
		o := &r.Obs[i]
		if o.Verdict == Info {
			continue
		}
		s.Obligations++
		if o.Nontrivial {
			distinct[o.Rule+"\x00"+o.Construct] = true
		}
		switch o.Verdict {
		case Discharged:
			s.Discharged++
		case Violation:
			if k, ok := known[o.Rule+"\x00"+o.Construct]; ok {
				o.Verdict = Known
				s.KnownN++
				lines = append(lines, fmt.Sprintf("KNOWN-FINDING: property=%s %s %s %s (%s)", r.Prop, o.Rule, o.Construct, k.What, o.Pos))
				continue
			}
			fallthrough
		default: // violation, undecided, unresolved
			s.Violations++
			path := filepath.Join(replayDir, fmt.Sprintf("%s-%d.json", r.Prop, s.Violations))
			b, _ := json.MarshalIndent(map[string]any{"property": r.Prop, "kind": o.Verdict, "obligation": o}, "", " ")
			os.WriteFile(path, b, 0o644)
			if r.Quiet {
				s.FirstLines = append(s.FirstLines, fmt.Sprintf("%s %s %s at %s: %s", strings.ToUpper(o.Verdict), o.Rule, o.Construct, o.Pos, o.Detail))
			} else {
				fmt.Printf("%s %s %s at %s: %s\n", strings.ToUpper(o.Verdict), o.Rule, o.Construct, o.Pos, o.Detail)
				for _, w := range o.Witness {
					fmt.Printf("    %s\n", w)
				}
			}
			lines = append(lines, fmt.Sprintf("VIOLATION property=%s replay=%s", r.Prop, path))
		}
	}
	wall := time.Since(r.start).Seconds()
	// evidence
	var ruleTexts []string
	var rnames []string
	for k := range r.Rules {
		rnames = append(rnames, k)
	}
	sort.Strings(rnames)
	for _, k := range rnames {
		ruleTexts = append(ruleTexts, k+": "+r.Rules[k])
	}
	var funcs []string
	for f := range r.Funcs {
		funcs = append(funcs, f)
	}
	sort.Strings(funcs)
	samples := []any{}
	perRule := map[string]int{}
	for _, o := range r.Obs {
		if perRule[o.Rule] < 6 || o.Verdict != Discharged || os.Getenv("VERIFSA_FULL") != "" {
			samples = append(samples, o)
			perRule[o.Rule]++
		}
	}
	seed := 0
	if v := os.Getenv("VERIF_SEED"); v != "" {
		seed, _ = strconv.Atoi(v)
	}
	var pkgs []string
	for k := range r.P.Pkgs {
		pkgs = append(pkgs, k)
	}
	sort.Strings(pkgs)
	cov := map[string]any{
		"explanation": "Static analysis of /repo's current source (type-checked syntax + go/ssa + CHA call graph; nothing executed). " +
			"Each obligation is a structural necessary condition of the property, decided on every CFG path of the analysed functions. Rules applied: " +
			strings.Join(ruleTexts, " || "),
		"obligations":         s.Obligations,
		"discharged":          s.Discharged,
		"known_findings":      s.KnownN,
		"evaluations":         s.Obligations,
		"distinct_nontrivial": len(distinct),
		"rule":                "one case = one (rule, resolved construct) obligation; non-trivial = the decision required computing a path, dataflow, call-graph or table comparison beyond resolving the anchor",
		"samples":             samples,
		"functions_analysed":  funcs,
		"call_sites":          r.CallSites,
		"packages":            pkgs,
		"build_config":        append([]string{"linux/amd64", "tags=verif"}, r.P.Cfg.Tags...),
		"not_decided":         r.NotDec,
		"exhaustive":          false,
	}
	for k, v := range extra {
		cov[k] = v
	}
	ev := map[string]any{
		"property_id": r.Prop,
		"tier":        r.Tier,
		"seed":        seed,
		"level":       "other",
		"coverage":    cov,
		"assumptions": append([]string{
			"go/packages + go/types + go/ssa (x/tools v0.29.0) represent the compiled program faithfully",
			"reflection, unsafe and cgo are not modelled; third-party libraries are treated as named APIs",
			"interface calls on repo interfaces are resolved by class-hierarchy analysis (over-approximation)",
		}, r.Assume...),
		"wall_s":     wall,
		"violations": s.Violations,
	}
	b, _ := json.MarshalIndent(ev, "", " ")
	evPath := filepath.Join(verifDir, "evidence", r.Prop+".json")
	if r.NoEvidence {
		evPath = os.DevNull
	}
	if err := os.WriteFile(evPath, b, 0o644); err != nil {
		fmt.Fprintf(os.Stderr, "verifsa: cannot write evidence: %v\n", err)
		return Summary{Exit: 2}
	}
	if !r.Quiet {
		fmt.Printf("verifsa %s %s: %d obligations, %d discharged, %d known findings, %d violations, %d functions (%.1fs)\n",
			r.Prop, r.Tier, s.Obligations, s.Discharged, s.KnownN, s.Violations, len(funcs), wall)
		for _, l := range lines {
			fmt.Println(l)
		}
	}
	if s.Violations > 0 {
		s.Exit = 1
	}
	return s
}

func posLess(a, b string) bool {
	fa, la := splitPos(a)
	fb, lb := splitPos(b)
	if fa != fb {
		return fa < fb
	}
	return la < lb
}

func splitPos(s string) (string, int) {
	i := strings.LastIndex(s, ":")
	if i < 0 {
		return s, 0
	}
	n, _ := strconv.Atoi(s[i+1:])
	return s[:i], n
}
