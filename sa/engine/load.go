// Package engine loads the real 0chain/common program (type-checked syntax,
// SSA, CHA call graph) and offers the queries the rules are built from.
package engine

import (
	"fmt"
	"go/ast"
	"go/token"
	"go/types"
	"os"
	"sort"
	"strings"

	"golang.org/x/tools/go/callgraph"
	"golang.org/x/tools/go/callgraph/cha"
	"golang.org/x/tools/go/packages"
	"golang.org/x/tools/go/ssa"
)

const RepoMod = "github.com/0chain/common"

// illTypedAllowed lists the third-party packages that are allowed to carry
// type errors (cgo binding that cannot be compiled in this sandbox). The repo
// itself must type-check with zero errors.
var illTypedAllowed = map[string]bool{
	"github.com/linxGnu/grocksdb": true,
}

// Config selects what is loaded.
type Config struct {
	Dir     string            // repository root (default /repo)
	Tags    []string          // extra build tags besides the hook guard "verif"
	Overlay map[string][]byte // in-memory replacements (absolute path -> content)
	NoSSA   bool
}

// Program is the loaded, resolved program.
type Program struct {
	Cfg      Config
	Fset     *token.FileSet
	Pkgs     map[string]*packages.Package // by import path, repo packages only
	All      []*packages.Package          // every package, dependency order unspecified
	SSA      *ssa.Program
	SSAPkgs  map[string]*ssa.Package
	cg       *callgraph.Graph
	rcg      *RepoCG
	LoadSecs float64
}

// InfraError is an infrastructure failure (exit 2): the analysis could not be
// set up; it is never a verdict about the property.
type InfraError struct{ Msg string }

func (e *InfraError) Error() string { return e.Msg }

func infra(format string, a ...any) error { return &InfraError{fmt.Sprintf(format, a...)} }

// Load type-checks ./... of the repository and builds SSA for every package
// that is well typed, plus the repo packages that are only transitively
// ill-typed through an allow-listed dependency.
func Load(cfg Config) (*Program, error) {
	if cfg.Dir == "" {
		cfg.Dir = "/repo"
	}
	tags := append([]string{"verif"}, cfg.Tags...)
	env := []string{}
	for _, kv := range os.Environ() {
		if strings.HasPrefix(kv, "GOFLAGS=") || strings.HasPrefix(kv, "GOWORK=") ||
			strings.HasPrefix(kv, "GOPROXY=") || strings.HasPrefix(kv, "GOSUMDB=") ||
			strings.HasPrefix(kv, "GOTOOLCHAIN=") {
			continue
		}
		env = append(env, kv)
	}
	env = append(env, "GOFLAGS=-mod=mod", "GOPROXY=off", "GOSUMDB=off", "GOTOOLCHAIN=local", "GOWORK=off")
	pc := &packages.Config{
		Mode:       packages.LoadAllSyntax,
		Dir:        cfg.Dir,
		Env:        env,
		Tests:      false,
		BuildFlags: []string{"-tags=" + strings.Join(tags, ",")},
		Overlay:    cfg.Overlay,
	}
	roots, err := packages.Load(pc, "./...")
	if err != nil {
		return nil, infra("packages.Load: %v", err)
	}
	p := &Program{Cfg: cfg, Pkgs: map[string]*packages.Package{}, SSAPkgs: map[string]*ssa.Package{}}
	seen := map[*packages.Package]bool{}
	var visit func(*packages.Package)
	visit = func(pk *packages.Package) {
		if seen[pk] {
			return
		}
		seen[pk] = true
		for _, imp := range pk.Imports {
			visit(imp)
		}
		p.All = append(p.All, pk) // post-order: dependencies first
	}
	for _, r := range roots {
		visit(r)
	}
	nrepo := 0
	for _, pk := range p.All {
		if pk.Fset != nil {
			p.Fset = pk.Fset
		}
		isRepo := strings.HasPrefix(pk.PkgPath, RepoMod)
		if isRepo {
			nrepo++
			p.Pkgs[pk.PkgPath] = pk
			if len(pk.Errors) > 0 {
				var msgs []string
				for _, e := range pk.Errors {
					msgs = append(msgs, e.Error())
				}
				return nil, infra("type/list errors in repo package %s: %s", pk.PkgPath, strings.Join(msgs, "; "))
			}
			if pk.Types == nil || pk.TypesInfo == nil || len(pk.Syntax) == 0 {
				return nil, infra("repo package %s has no types/syntax", pk.PkgPath)
			}
		} else if len(pk.Errors) > 0 && !illTypedAllowed[pk.PkgPath] {
			// A broken third-party package that is not on the allow list.
			return nil, infra("errors in dependency %s: %v", pk.PkgPath, pk.Errors[0])
		}
	}
	if nrepo < 11 {
		return nil, infra("only %d repo packages loaded (expected >= 11)", nrepo)
	}
	if cfg.NoSSA {
		return p, nil
	}
	// Assemble SSA by hand: ssautil.Packages would skip core/util because it
	// is transitively IllTyped through grocksdb.
	prog := ssa.NewProgram(p.Fset, ssa.InstantiateGenerics)
	for _, pk := range p.All {
		if pk.Types == nil {
			continue
		}
		if illTypedAllowed[pk.PkgPath] || pk.TypesInfo == nil || len(pk.Syntax) == 0 || !strings.HasPrefix(pk.PkgPath, RepoMod) {
			// dependencies are named APIs only: no function bodies are built for them
			prog.CreatePackage(pk.Types, nil, nil, true)
			continue
		}
		sp := prog.CreatePackage(pk.Types, pk.Syntax, pk.TypesInfo, true)
		if strings.HasPrefix(pk.PkgPath, RepoMod) {
			p.SSAPkgs[pk.PkgPath] = sp
		}
	}
	prog.Build()
	p.SSA = prog
	return p, nil
}

// CallGraph returns the CHA call graph (built lazily).
func (p *Program) CallGraph() *callgraph.Graph {
	if p.cg == nil {
		p.cg = cha.CallGraph(p.SSA)
	}
	return p.cg
}

// Pkg returns the repo package with the given path relative to the module.
func (p *Program) Pkg(rel string) (*packages.Package, error) {
	pk := p.Pkgs[RepoMod+"/"+rel]
	if pk == nil {
		return nil, fmt.Errorf("package %s not loaded", rel)
	}
	return pk, nil
}

// Func resolves a function or method by package (relative), receiver type name
// ("" for a plain function) and name. Pointer and value receivers both match.
func (p *Program) Func(rel, recv, name string) (*ssa.Function, error) {
	sp := p.SSAPkgs[RepoMod+"/"+rel]
	if sp == nil {
		return nil, fmt.Errorf("unresolved anchor: package %s", rel)
	}
	if recv == "" {
		if f := sp.Func(name); f != nil {
			return f, nil
		}
		return nil, fmt.Errorf("unresolved anchor: func %s.%s", rel, name)
	}
	obj := sp.Pkg.Scope().Lookup(recv)
	tn, ok := obj.(*types.TypeName)
	if !ok {
		return nil, fmt.Errorf("unresolved anchor: type %s.%s", rel, recv)
	}
	for _, T := range []types.Type{tn.Type(), types.NewPointer(tn.Type())} {
		ms := p.SSA.MethodSets.MethodSet(T)
		for i := 0; i < ms.Len(); i++ {
			sel := ms.At(i)
			if sel.Obj().Name() == name && len(sel.Index()) == 1 { // declared on the type itself, not promoted
				if f := p.SSA.MethodValue(sel); f != nil {
					return f, nil
				}
			}
		}
	}
	return nil, fmt.Errorf("unresolved anchor: method %s.(%s).%s", rel, recv, name)
}

// Type resolves a named type of a repo package.
func (p *Program) Type(rel, name string) (*types.Named, error) {
	pk := p.Pkgs[RepoMod+"/"+rel]
	if pk == nil {
		return nil, fmt.Errorf("unresolved anchor: package %s", rel)
	}
	obj := pk.Types.Scope().Lookup(name)
	tn, ok := obj.(*types.TypeName)
	if !ok {
		return nil, fmt.Errorf("unresolved anchor: type %s.%s", rel, name)
	}
	n, ok := tn.Type().(*types.Named)
	if !ok {
		return nil, fmt.Errorf("unresolved anchor: %s.%s is not a named type", rel, name)
	}
	return n, nil
}

// Field resolves a struct field object.
func (p *Program) Field(rel, typ, field string) (*types.Var, error) {
	n, err := p.Type(rel, typ)
	if err != nil {
		return nil, err
	}
	st, ok := n.Underlying().(*types.Struct)
	if !ok {
		return nil, fmt.Errorf("unresolved anchor: %s.%s is not a struct", rel, typ)
	}
	for i := 0; i < st.NumFields(); i++ {
		if st.Field(i).Name() == field {
			return st.Field(i), nil
		}
	}
	return nil, fmt.Errorf("unresolved anchor: field %s.%s.%s", rel, typ, field)
}

// Pos renders a position relative to the repository root.
func (p *Program) Pos(pos token.Pos) string {
	if !pos.IsValid() {
		return "-"
	}
	ps := p.Fset.Position(pos)
	f := strings.TrimPrefix(ps.Filename, p.Cfg.Dir+"/")
	return fmt.Sprintf("%s:%d", f, ps.Line)
}

// RepoFuncs returns every source-level function (including anonymous ones) of
// the repo packages, sorted by position.
func (p *Program) RepoFuncs() []*ssa.Function {
	var out []*ssa.Function
	var addAnon func(f *ssa.Function)
	addAnon = func(f *ssa.Function) {
		for _, a := range f.AnonFuncs {
			out = append(out, a)
			addAnon(a)
		}
	}
	for _, sp := range p.SSAPkgs {
		for _, m := range sp.Members {
			switch m := m.(type) {
			case *ssa.Function:
				if m.Synthetic == "" || m.Name() == "init" {
					out = append(out, m)
					addAnon(m)
				}
			case *ssa.Type:
				for _, T := range []types.Type{m.Type(), types.NewPointer(m.Type())} {
					ms := p.SSA.MethodSets.MethodSet(T)
					for i := 0; i < ms.Len(); i++ {
						f := p.SSA.MethodValue(ms.At(i))
						if f != nil && f.Synthetic == "" && f.Pkg == sp {
							dup := false
							for _, o := range out {
								if o == f {
									dup = true
								}
							}
							if !dup {
								out = append(out, f)
								addAnon(f)
							}
						}
					}
				}
			}
		}
	}
	sort.Slice(out, func(i, j int) bool { return out[i].Pos() < out[j].Pos() })
	return out
}

// FuncDecl returns the syntax of a source function.
func (p *Program) FuncDecl(f *ssa.Function) *ast.FuncDecl {
	if d, ok := f.Syntax().(*ast.FuncDecl); ok {
		return d
	}
	return nil
}

// FuncName renders pkg.(Recv).Name without the module prefix.
func FuncName(f *ssa.Function) string {
	if f == nil {
		return "<nil>"
	}
	s := f.String()
	s = strings.ReplaceAll(s, RepoMod+"/core/", "")
	s = strings.ReplaceAll(s, RepoMod+"/", "")
	return s
}
