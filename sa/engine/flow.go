package engine

import (
	"go/token"
	"go/types"

	"golang.org/x/tools/go/ssa"
)

// Label is a set of provenance labels (bitmask); 0 = clean/fresh. Join = union.
type Label uint64

// Param bits: label bit i (i < 16) means "derives from parameter i of the
// analysed function" when the spec asks for symbolic parameters.
const ParamBits = 16

func ParamLabel(i int) Label { return 1 << uint(i) }

// FlowSpec parameterises the forward provenance analysis.
type FlowSpec struct {
	// Param gives the label of a parameter (default: symbolic ParamLabel(i)).
	Param func(p *ssa.Parameter, index int) Label
	// FreeVar gives the label of a captured variable (default 0).
	FreeVar func(v *ssa.FreeVar) Label
	// Call gives the label of a call result; ok=false -> union of argument labels
	// (the result may alias any argument).
	Call func(c ssa.CallInstruction, arg func(ssa.Value) Label) (Label, bool)
	// HeapLoad gives the label of a load through a non-local address; base is
	// the label of the root pointer. ok=false -> base (contents reachable from
	// a labelled object carry its label).
	HeapLoad func(ld *ssa.UnOp, base Label) (Label, bool)
	// Value overrides any other value (Lookup, Global, ...).
	Value func(v ssa.Value, get func(ssa.Value) Label) (Label, bool)
	// Irrelevant types always carry label 0 (e.g. bool, ints, strings).
	Irrelevant func(t types.Type) bool
}

type cellKey struct {
	root *ssa.Alloc
	path string
}

type cells map[cellKey]Label

func (c cells) clone() cells {
	n := make(cells, len(c))
	for k, v := range c {
		n[k] = v
	}
	return n
}

// Flow is the result of the analysis of one function.
type Flow struct {
	Fn   *ssa.Function
	spec FlowSpec
	val  map[ssa.Value]Label
	in   map[*ssa.BasicBlock]cells
	seen map[*ssa.BasicBlock]bool
	// PtrAt: label of the object a store/call target points to, recorded per
	// instruction for sinks that need the state at that point.
	at map[ssa.Instruction]cells
}

// Of returns the label of v (0 for unknown values).
func (fl *Flow) Of(v ssa.Value) Label {
	if v == nil {
		return 0
	}
	if fl.spec.Irrelevant != nil && fl.spec.Irrelevant(v.Type()) {
		return 0
	}
	if l, ok := fl.val[v]; ok {
		return l
	}
	return fl.eval(v, nil)
}

// ObjAt returns the label of the object pointed to by ptr as seen just before
// instruction in: for a local Alloc the union of its cells, otherwise Of(ptr).
func (fl *Flow) ObjAt(in ssa.Instruction, ptr ssa.Value) Label {
	root := AddrRoot(ptr)
	if al, ok := root.(*ssa.Alloc); ok {
		st := fl.at[in]
		var l Label
		prefix := AddrPath(ptr)
		for k, v := range st {
			if k.root == al && (hasPrefix(k.path, prefix) || hasPrefix(prefix, k.path)) {
				l |= v
			}
		}
		return l
	}
	return fl.Of(ptr)
}

// CellAt returns the label of the local cell (alloc, path) as seen just before
// instruction in; found=false when no store to the cell (or an enclosing one)
// reaches that point (the cell still holds its zero value).
func (fl *Flow) CellAt(in ssa.Instruction, al *ssa.Alloc, path string) (Label, bool) {
	st := fl.at[in]
	for p := path; ; p = parentPath(p) {
		if v, ok := st[cellKey{al, p}]; ok {
			return v, true
		}
		if p == "" {
			return 0, false
		}
	}
}

// IsString reports whether t is a string type.
func IsString(t types.Type) bool { return isString(t) }

func hasPrefix(s, p string) bool { return len(s) >= len(p) && s[:len(p)] == p }

// RunFlow analyses f to a fixpoint.
func RunFlow(f *ssa.Function, spec FlowSpec) *Flow {
	fl := &Flow{Fn: f, spec: spec, val: map[ssa.Value]Label{}, in: map[*ssa.BasicBlock]cells{},
		seen: map[*ssa.BasicBlock]bool{}, at: map[ssa.Instruction]cells{}}
	if len(f.Blocks) == 0 {
		return fl
	}
	for i, p := range f.Params {
		l := ParamLabel(i)
		if spec.Param != nil {
			l = spec.Param(p, i)
		}
		if spec.Irrelevant != nil && spec.Irrelevant(p.Type()) {
			l = 0
		}
		fl.val[p] = l
	}
	for _, v := range f.FreeVars {
		var l Label
		if spec.FreeVar != nil {
			l = spec.FreeVar(v)
		}
		fl.val[v] = l
	}
	fl.in[f.Blocks[0]] = cells{}
	// Round-robin over the blocks until neither a value label nor a block
	// in-state changes (functions are small; labels only grow).
	for iter := 0; iter < 200; iter++ {
		changed := false
		for _, b := range f.Blocks {
			inSt, ok := fl.in[b]
			if !ok {
				continue // not (yet) reachable
			}
			fl.seen[b] = true
			st := inSt.clone()
			for _, in := range b.Instrs {
				fl.at[in] = st.clone()
				switch x := in.(type) {
				case *ssa.Store:
					l := fl.get(x.Val)
					if fl.spec.Irrelevant != nil && fl.spec.Irrelevant(x.Val.Type()) {
						l = 0
					}
					if al, ok := AddrRoot(x.Addr).(*ssa.Alloc); ok {
						path := AddrPath(x.Addr)
						for k := range st { // strong update: drop sub-cells
							if k.root == al && hasPrefix(k.path, path) {
								delete(st, k)
							}
						}
						if stt, ok := x.Val.Type().Underlying().(*types.Struct); ok {
							// whole-struct store: one cell per reference-carrying field, so
							// that a later store to one field replaces exactly that part
							for i := 0; i < stt.NumFields(); i++ {
								fl0 := l
								if fl.spec.Irrelevant != nil && fl.spec.Irrelevant(stt.Field(i).Type()) {
									fl0 = 0
								}
								st[cellKey{al, path + "." + stt.Field(i).Name()}] = fl0
							}
						} else {
							st[cellKey{al, path}] = l
						}
					}
				case ssa.Value:
					if call, isCall := x.(*ssa.Call); isCall {
						if bi, ok := call.Call.Value.(*ssa.Builtin); ok && bi.Name() == "copy" && len(call.Call.Args) == 2 {
							// copy(dst, src): a local destination receives the source's label
							if al, ok := AddrRoot(sliceBase(call.Call.Args[0])).(*ssa.Alloc); ok {
								k := cellKey{al, ""}
								st[k] = effective(st, k) | fl.get(call.Call.Args[1])
							}
						}
						// a callee handed the address of a local may fill it from its
						// other arguments (weak update of the whole local)
						var all Label
						for _, a := range call.Call.Args {
							all |= fl.get(a)
						}
						for _, a := range call.Call.Args {
							if _, isPtr := a.Type().Underlying().(*types.Pointer); !isPtr {
								continue
							}
							if al, ok := AddrRoot(a).(*ssa.Alloc); ok && all != 0 {
								k := cellKey{al, AddrPath(a)}
								st[k] = effective(st, k) | all
								for k2 := range st { // sub-cells too
									if k2.root == al && len(k2.path) > len(k.path) && hasPrefix(k2.path, k.path) {
										st[k2] |= all
									}
								}
							}
						}
					}
					nl := fl.eval(x, st)
					if fl.spec.Irrelevant != nil && fl.spec.Irrelevant(x.Type()) {
						nl = 0
					}
					if old, ok := fl.val[x]; !ok || old|nl != old {
						fl.val[x] = old | nl
						changed = true
					}
				}
			}
			var iff *ssa.If
			if len(b.Instrs) > 0 {
				iff, _ = b.Instrs[len(b.Instrs)-1].(*ssa.If)
			}
			for i, s := range b.Succs {
				out := st
				if iff != nil {
					if cell, nilEdge, ok := nilTest(iff.Cond); ok && nilEdge == i {
						out = st.clone()
						for k := range out {
							if k.root == cell.root && hasPrefix(k.path, cell.path) {
								delete(out, k)
							}
						}
						out[cell] = 0
					}
				}
				if fl.mergeInto(s, out) {
					changed = true
				}
			}
		}
		if !changed {
			break
		}
	}
	return fl
}

func sliceBase(v ssa.Value) ssa.Value {
	if sl, ok := v.(*ssa.Slice); ok {
		return sl.X
	}
	return v
}

// nilTest recognises `*cell == nil` / `*cell != nil` on a local cell and
// returns the successor index on which the cell is nil.
func nilTest(cond ssa.Value) (cellKey, int, bool) {
	b, ok := cond.(*ssa.BinOp)
	if !ok || (b.Op != token.EQL && b.Op != token.NEQ) {
		return cellKey{}, 0, false
	}
	x, y := b.X, b.Y
	if c, ok := x.(*ssa.Const); ok && c.Value == nil {
		x, y = y, x
	}
	c, ok := y.(*ssa.Const)
	if !ok || c.Value != nil {
		return cellKey{}, 0, false
	}
	ld, ok := x.(*ssa.UnOp)
	if !ok || ld.Op != token.MUL {
		return cellKey{}, 0, false
	}
	al, ok := AddrRoot(ld.X).(*ssa.Alloc)
	if !ok {
		return cellKey{}, 0, false
	}
	idx := 0 // EQL: true edge (succ 0) is the nil edge
	if b.Op == token.NEQ {
		idx = 1
	}
	return cellKey{al, AddrPath(ld.X)}, idx, true
}

func (fl *Flow) mergeInto(b *ssa.BasicBlock, st cells) bool {
	cur, ok := fl.in[b]
	if !ok {
		fl.in[b] = st.clone()
		return true
	}
	changed := false
	keys := map[cellKey]bool{}
	for k := range st {
		keys[k] = true
	}
	for k := range cur {
		keys[k] = true
	}
	merged := cells{}
	for k := range keys {
		merged[k] = effective(cur, k) | effective(st, k)
	}
	for k, v := range merged {
		if old, had := cur[k]; !had || old != v {
			cur[k] = v
			changed = true
		}
	}
	return changed
}

// effective value of a cell: exact entry, else the nearest enclosing entry,
// else 0 (zero value of a fresh local).
func effective(c cells, k cellKey) Label {
	for p := k.path; ; p = parentPath(p) {
		if v, ok := c[cellKey{k.root, p}]; ok {
			return v
		}
		if p == "" {
			return 0
		}
	}
}

func (fl *Flow) get(v ssa.Value) Label {
	if v == nil {
		return 0
	}
	if l, ok := fl.val[v]; ok {
		return l
	}
	switch v.(type) {
	case *ssa.Function, *ssa.Builtin:
		return 0
	case *ssa.Const, *ssa.Global:
		return fl.eval(v, nil) // the spec may label constants (e.g. "not the constant true")
	}
	return 0 // not yet computed (back edge): optimistic, fixpoint iterates
}

func (fl *Flow) eval(v ssa.Value, st cells) Label {
	if fl.spec.Value != nil {
		if l, ok := fl.spec.Value(v, fl.get); ok {
			return l
		}
	}
	switch x := v.(type) {
	case *ssa.Const, *ssa.Function, *ssa.Builtin:
		return 0
	case *ssa.Global:
		return 0
	case *ssa.Alloc:
		return 0
	case *ssa.Phi:
		var l Label
		for _, e := range x.Edges {
			l |= fl.get(e)
		}
		return l
	case *ssa.UnOp:
		if x.Op == token.MUL {
			root := AddrRoot(x.X)
			if al, ok := root.(*ssa.Alloc); ok && st != nil {
				path := AddrPath(x.X)
				var l Label
				found := false
				// exact or enclosing cell
				for p := path; ; {
					if c, ok := st[cellKey{al, p}]; ok {
						l |= c
						found = true
						break
					}
					if p == "" {
						break
					}
					p = parentPath(p)
				}
				if !found || true {
					// sub-cells (whole-struct load)
					for k, c := range st {
						if k.root == al && len(k.path) > len(path) && hasPrefix(k.path, path) {
							l |= c
						}
					}
				}
				return l
			}
			base := fl.get(root)
			if fl.spec.HeapLoad != nil {
				if l, ok := fl.spec.HeapLoad(x, base); ok {
					return l
				}
			}
			return base
		}
		return fl.get(x.X)
	case *ssa.FieldAddr:
		return fl.get(x.X)
	case *ssa.IndexAddr:
		return fl.get(x.X)
	case *ssa.Field:
		return fl.get(x.X)
	case *ssa.Index:
		return fl.get(x.X)
	case *ssa.Lookup:
		return fl.get(x.X)
	case *ssa.Range:
		return fl.get(x.X)
	case *ssa.Next:
		return fl.get(x.Iter)
	case *ssa.Extract:
		return fl.get(x.Tuple)
	case *ssa.Slice:
		if al, ok := x.X.(*ssa.Alloc); ok && st != nil {
			return fl.allocLabel(al, st) // slice of a local array (varargs, literals): its elements
		}
		return fl.get(x.X)
	case *ssa.MakeInterface:
		if al, ok := x.X.(*ssa.Alloc); ok && st != nil {
			return fl.allocLabel(al, st)
		}
		return fl.get(x.X)
	case *ssa.ChangeInterface:
		return fl.get(x.X)
	case *ssa.ChangeType:
		return fl.get(x.X)
	case *ssa.Convert:
		// string <-> []byte conversions copy
		if isString(x.Type()) || isString(x.X.Type()) {
			return 0
		}
		return fl.get(x.X)
	case *ssa.TypeAssert:
		return fl.get(x.X)
	case *ssa.BinOp:
		return 0
	case *ssa.MakeSlice, *ssa.MakeMap, *ssa.MakeChan, *ssa.MakeClosure:
		return 0
	case *ssa.Call:
		if fl.spec.Call != nil {
			if l, ok := fl.spec.Call(x, fl.get); ok {
				return l
			}
		}
		var l Label
		for _, a := range x.Call.Args {
			if fl.spec.Irrelevant != nil && fl.spec.Irrelevant(a.Type()) {
				continue
			}
			l |= fl.get(a)
		}
		if x.Call.IsInvoke() {
			l |= fl.get(x.Call.Value)
		}
		return l
	}
	return 0
}

func (fl *Flow) allocLabel(al *ssa.Alloc, st cells) Label {
	var l Label
	for k, c := range st {
		if k.root == al {
			l |= c
		}
	}
	return l
}

func parentPath(p string) string {
	for i := len(p) - 1; i >= 0; i-- {
		if p[i] == '.' || p[i] == '[' {
			return p[:i]
		}
	}
	return ""
}

func isString(t types.Type) bool {
	b, ok := t.Underlying().(*types.Basic)
	return ok && b.Info()&types.IsString != 0
}

// NoRefs reports whether values of type t cannot carry references (basic
// non-pointer types and structs/arrays of them).
func NoRefs(t types.Type) bool {
	switch u := t.Underlying().(type) {
	case *types.Basic:
		return u.Kind() != types.UnsafePointer
	case *types.Struct:
		for i := 0; i < u.NumFields(); i++ {
			if !NoRefs(u.Field(i).Type()) {
				return false
			}
		}
		return true
	case *types.Array:
		return NoRefs(u.Elem())
	case *types.Tuple:
		return false
	}
	return false
}
