package engine

import (
	"go/token"
	"go/types"
	"sort"
	"strings"

	"golang.org/x/tools/go/ssa"
)

// Lock modes.
const (
	ModeR = 1
	ModeW = 2
)

// LockSet maps a lock key ("Owner.field") to the mode in which it is held.
type LockSet map[string]int

func (l LockSet) clone() LockSet {
	n := make(LockSet, len(l))
	for k, v := range l {
		n[k] = v
	}
	return n
}

func (l LockSet) String() string {
	if len(l) == 0 {
		return "{}"
	}
	var s []string
	for k, m := range l {
		if m == ModeW {
			s = append(s, k+":W")
		} else {
			s = append(s, k+":R")
		}
	}
	sort.Strings(s)
	return "{" + strings.Join(s, ",") + "}"
}

func meet(a, b LockSet) LockSet {
	out := LockSet{}
	for k, m := range a {
		if m2, ok := b[k]; ok {
			if m2 < m {
				m = m2
			}
			out[k] = m
		}
	}
	return out
}

func union(a, b LockSet) LockSet {
	out := a.clone()
	for k, m := range b {
		if out[k] < m {
			out[k] = m
		}
	}
	return out
}

func sameLS(a, b LockSet) bool {
	if len(a) != len(b) {
		return false
	}
	for k, m := range a {
		if b[k] != m {
			return false
		}
	}
	return true
}

// lockOp recognises sync.Mutex / sync.RWMutex operations and returns the
// field-based key of the mutex ("Owner.field"; "?" when the mutex is not a
// struct field) and the operation name.
func lockOp(c ssa.CallInstruction) (key, op string, ok bool) {
	cc := c.Common()
	if cc.IsInvoke() {
		return "", "", false
	}
	sc := cc.StaticCallee()
	if sc == nil || sc.Signature.Recv() == nil || len(cc.Args) == 0 {
		return "", "", false
	}
	n := namedOf(sc.Signature.Recv().Type())
	if n == nil || n.Obj().Pkg() == nil || n.Obj().Pkg().Path() != "sync" {
		return "", "", false
	}
	if n.Obj().Name() != "Mutex" && n.Obj().Name() != "RWMutex" {
		return "", "", false
	}
	switch sc.Name() {
	case "Lock", "Unlock", "RLock", "RUnlock":
	default:
		return "", "", false
	}
	return MutexKey(cc.Args[0]), sc.Name(), true
}

func namedOf(t types.Type) *types.Named {
	for {
		switch x := t.(type) {
		case *types.Pointer:
			t = x.Elem()
		case *types.Named:
			return x
		default:
			return nil
		}
	}
}

// MutexKey names the mutex addressed by v: &x.f (value mutex) or *(&x.f)
// (pointer mutex), possibly through an embedded struct.
func MutexKey(v ssa.Value) string {
	if u, ok := v.(*ssa.UnOp); ok && u.Op == token.MUL {
		v = u.X
	}
	if fa, ok := v.(*ssa.FieldAddr); ok {
		owner := "?"
		if n := namedOf(fa.X.Type()); n != nil {
			owner = n.Obj().Name()
		}
		return owner + "." + fieldName(fa.X.Type(), fa.Field)
	}
	return "?" + ValKey(v)
}

// FuncLocks is the intraprocedural must-lockset of one function.
type FuncLocks struct {
	Fn *ssa.Function
	At map[ssa.Instruction]LockSet // lockset held just before the instruction
}

// LocksIn computes, per instruction, the locks that are held on every path
// from the function entry (deferred unlocks keep the lock to the exit).
func LocksIn(f *ssa.Function) *FuncLocks {
	fl := &FuncLocks{Fn: f, At: map[ssa.Instruction]LockSet{}}
	if len(f.Blocks) == 0 {
		return fl
	}
	in := map[*ssa.BasicBlock]LockSet{f.Blocks[0]: {}}
	for iter := 0; iter < 100; iter++ {
		changed := false
		for _, b := range f.Blocks {
			st, ok := in[b]
			if !ok {
				continue
			}
			cur := st.clone()
			for _, ins := range b.Instrs {
				fl.At[ins] = cur.clone()
				c, isCall := ins.(*ssa.Call)
				if !isCall {
					continue
				}
				if key, op, ok := lockOp(c); ok {
					switch op {
					case "Lock":
						cur[key] = ModeW
					case "RLock":
						if cur[key] < ModeR {
							cur[key] = ModeR
						}
					case "Unlock", "RUnlock":
						delete(cur, key)
					}
				}
			}
			for _, s := range b.Succs {
				old, had := in[s]
				var nw LockSet
				if !had {
					nw = cur.clone()
				} else {
					nw = meet(old, cur)
				}
				if !had || !sameLS(old, nw) {
					in[s] = nw
					changed = true
				}
			}
		}
		if !changed {
			break
		}
	}
	return fl
}

// LockWorld lifts locksets through the repo call graph.
type LockWorld struct {
	G       *RepoCG
	Local   map[*ssa.Function]*FuncLocks
	Entry   map[*ssa.Function]LockSet // locks held on entry on every call path from the entry set
	Reached map[*ssa.Function]bool
	isEntry map[*ssa.Function]bool
}

// NewLockWorld computes entry locksets for every function reachable from the
// entries. Entry functions start with nothing held. `go` call sites contribute
// nothing held (new goroutine); deferred closures contribute only the
// caller's entry lockset.
func NewLockWorld(g *RepoCG, entries []*ssa.Function) *LockWorld {
	w := &LockWorld{G: g, Local: map[*ssa.Function]*FuncLocks{}, Entry: map[*ssa.Function]LockSet{}, Reached: g.Reach(entries...)}
	isEntry := map[*ssa.Function]bool{}
	for _, e := range entries {
		isEntry[e] = true
	}
	w.isEntry = isEntry
	for f := range w.Reached {
		w.Local[f] = LocksIn(f)
	}
	var order []*ssa.Function
	for f := range w.Reached {
		order = append(order, f)
	}
	sort.Slice(order, func(i, j int) bool { return order[i].Pos() < order[j].Pos() })
	// nil entry = top (not yet constrained)
	for _, e := range entries {
		w.Entry[e] = LockSet{}
	}
	for iter := 0; iter < 100; iter++ {
		changed := false
		for _, f := range order {
			if isEntry[f] {
				continue
			}
			var acc LockSet
			have := false
			for _, e := range g.In[f] {
				if !w.Reached[e.Caller] {
					continue
				}
				ce, ok := w.Entry[e.Caller]
				if !ok {
					continue // caller still top
				}
				var at LockSet
				switch e.Site.(type) {
				case *ssa.Go:
					at = LockSet{}
				case *ssa.Defer:
					at = ce.clone()
				default:
					at = union(ce, w.Local[e.Caller].At[e.Site])
				}
				if !have {
					acc, have = at, true
				} else {
					acc = meet(acc, at)
				}
			}
			if !have {
				continue
			}
			if old, ok := w.Entry[f]; !ok || !sameLS(old, acc) {
				w.Entry[f] = acc
				changed = true
			}
		}
		if !changed {
			break
		}
	}
	return w
}

// Witness returns a call chain from an entry to f along which lock key is not
// held in mode need when f is entered.
func (w *LockWorld) Witness(f *ssa.Function, key string, need int) []string {
	var chain []string
	seen := map[*ssa.Function]bool{}
	cur := f
	for i := 0; i < 50 && cur != nil && !seen[cur]; i++ {
		seen[cur] = true
		chain = append([]string{FuncName(cur)}, chain...)
		if w.isEntry[cur] {
			break
		}
		var next *ssa.Function
		for _, e := range w.G.In[cur] {
			if !w.Reached[e.Caller] {
				continue
			}
			var at LockSet
			switch e.Site.(type) {
			case *ssa.Go:
				at = LockSet{}
			case *ssa.Defer:
				at = w.Entry[e.Caller]
			default:
				at = union(w.Entry[e.Caller], w.Local[e.Caller].At[e.Site])
			}
			if at[key] < need && !seen[e.Caller] {
				next = e.Caller
				if _, isGo := e.Site.(*ssa.Go); isGo {
					chain = append([]string{"go"}, chain...)
				}
				break
			}
		}
		cur = next
	}
	return chain
}

// HeldAt returns the locks held at an instruction of a reached function:
// entry lockset plus the local must-lockset.
func (w *LockWorld) HeldAt(in ssa.Instruction) LockSet {
	f := in.Parent()
	fl := w.Local[f]
	if fl == nil {
		return LockSet{}
	}
	return union(w.Entry[f], fl.At[in])
}

// Access is one read or write of a struct field (or of the contents of the
// map/slice it holds).
type Access struct {
	In     ssa.Instruction
	Fn     *ssa.Function
	Field  *types.Var
	Owner  string // owner type name
	Write  bool
	Atomic bool   // performed through sync/atomic
	Fresh  bool   // the owner object was allocated in this function (constructor context)
	What   string // load, store, map-update, map-delete, append-store, atomic.X ...
}

// FieldAccesses lists every access in f to fields of the named owner types.
func FieldAccesses(f *ssa.Function, owners map[string]bool) []Access {
	var out []Access
	Instrs(f, func(in ssa.Instruction) {
		fa, ok := in.(*ssa.FieldAddr)
		if !ok {
			// Field on a struct value (copy) is a read of a local copy: ignored
			return
		}
		n := namedOf(fa.X.Type())
		if n == nil || !owners[n.Obj().Name()] {
			return
		}
		fld := FieldOf(fa)
		fresh := false
		switch r := AddrRoot(fa.X).(type) {
		case *ssa.Alloc:
			fresh = true
			_ = r
		}
		base := Access{Fn: f, Field: fld, Owner: n.Obj().Name(), Fresh: fresh}
		for _, ref := range Referrers(fa) {
			switch u := ref.(type) {
			case *ssa.Store:
				if u.Addr == ssa.Value(fa) {
					a := base
					a.In, a.Write, a.What = u, true, "store"
					out = append(out, a)
				}
			case *ssa.UnOp:
				if u.Op != token.MUL {
					continue
				}
				a := base
				a.In, a.What = u, "load"
				out = append(out, a)
				// contents of a loaded slice: stores into its elements, appends into its
				// backing array, copies into it - directly or in a callee the slice is
				// handed to - write the memory the field refers to
				if _, isSlice := u.Type().Underlying().(*types.Slice); isSlice {
					if in2, what := backingWrite(u, map[backKey]bool{}); in2 != nil {
						a2 := base
						a2.In, a2.Write, a2.What = in2, true, what
						out = append(out, a2)
					}
				}
				// contents: map updates / deletes on the loaded map
				for _, r2 := range Referrers(u) {
					switch m := r2.(type) {
					case *ssa.MapUpdate:
						if m.Map == ssa.Value(u) {
							a2 := base
							a2.In, a2.Write, a2.What = m, true, "map-update"
							out = append(out, a2)
						}
					case *ssa.Call:
						if b, ok := m.Call.Value.(*ssa.Builtin); ok && (b.Name() == "delete" || b.Name() == "clear") && len(m.Call.Args) > 0 && m.Call.Args[0] == ssa.Value(u) {
							a2 := base
							a2.In, a2.Write, a2.What = m, true, "map-"+b.Name()
							out = append(out, a2)
						}
					}
				}
			case ssa.CallInstruction:
				cc := u.Common()
				if sc := cc.StaticCallee(); sc != nil && sc.Pkg != nil && sc.Pkg.Pkg.Path() == "sync/atomic" {
					a := base
					a.In, a.Atomic, a.What = u, true, "atomic."+sc.Name()
					a.Write = !strings.HasPrefix(sc.Name(), "Load")
					out = append(out, a)
				} else if sc != nil && sc.Object() != nil && sc.Object().Pkg() != nil && sc.Object().Pkg().Path() == "sync/atomic" {
					a := base
					a.In, a.Atomic, a.What = u, true, "atomic."+sc.Name()
					a.Write = !strings.HasPrefix(sc.Name(), "Load")
					out = append(out, a)
				}
			case *ssa.Convert, *ssa.ChangeType:
				// (*int64)(&mpt.Version) handed to sync/atomic
				v := u.(ssa.Value)
				for _, r2 := range Referrers(v) {
					if c2, ok := r2.(ssa.CallInstruction); ok {
						if sc := c2.Common().StaticCallee(); sc != nil && sc.Object() != nil && sc.Object().Pkg() != nil && sc.Object().Pkg().Path() == "sync/atomic" {
							a := base
							a.In, a.Atomic, a.What = c2, true, "atomic."+sc.Name()
							a.Write = !strings.HasPrefix(sc.Name(), "Load")
							out = append(out, a)
						}
					}
				}
			}
		}
	})
	return out
}

// LockOp is the exported form of lockOp.
func LockOp(c ssa.CallInstruction) (key, op string, ok bool) { return lockOp(c) }

type backKey struct {
	f *ssa.Function
	i int
}

// backingWrite: an instruction that writes into the backing array of slice v
// (element store, append with v as the base, copy into v), looking through
// re-slices and phis and into static callees v is handed to.
func backingWrite(v ssa.Value, seen map[backKey]bool) (ssa.Instruction, string) {
	visited := map[ssa.Value]bool{}
	var found ssa.Instruction
	what := ""
	var walk func(x ssa.Value)
	walk = func(x ssa.Value) {
		if found != nil || visited[x] {
			return
		}
		visited[x] = true
		for _, ref := range Referrers(x) {
			if found != nil {
				return
			}
			switch u := ref.(type) {
			case *ssa.Slice:
				if u.X == x {
					walk(u)
				}
			case *ssa.Phi:
				walk(u)
			case *ssa.ChangeType:
				walk(u)
			case *ssa.IndexAddr:
				if u.X != x {
					continue
				}
				for _, r2 := range Referrers(u) {
					if st, ok := r2.(*ssa.Store); ok && st.Addr == ssa.Value(u) {
						found, what = st, "element store"
					}
				}
			case *ssa.Call:
				if b, ok := u.Call.Value.(*ssa.Builtin); ok {
					if (b.Name() == "append" || b.Name() == "copy") && len(u.Call.Args) > 0 && u.Call.Args[0] == x {
						if b.Name() == "append" && len(u.Call.Args) == 2 {
							// append(x[:n:n], ...) cannot write into x's array; only a plain base can
							if sl, ok := x.(*ssa.Slice); ok && sl.Max != nil {
								continue
							}
						}
						found, what = u, b.Name()+" into the backing array"
					}
					continue
				}
				sc := u.Call.StaticCallee()
				if sc == nil || len(sc.Blocks) == 0 {
					continue
				}
				for i, a := range u.Call.Args {
					if a != x || i >= len(sc.Params) {
						continue
					}
					k := backKey{sc, i}
					if seen[k] {
						continue
					}
					seen[k] = true
					if in2, w2 := backingWrite(sc.Params[i], seen); in2 != nil {
						found, what = u, w2+" in "+sc.Name()
					}
				}
			}
		}
	}
	walk(v)
	return found, what
}
