package engine

import (
	"fmt"
	"go/token"
	"go/types"
	"sort"
	"strings"

	"golang.org/x/tools/go/ssa"
)

// ---- structural value keys --------------------------------------------------
//
// go/ssa performs no common-subexpression elimination: len(x) written twice is
// two values. ValKey gives two values the same key when they are the same pure
// expression over the same operands. Loads are keyed by their address; callers
// that compare loads must make sure no store to the address lies between (see
// StoresTo). Calls are never equal to each other except the pure builtins len
// and cap.

func ValKey(v ssa.Value) string {
	return valKey(v, 0)
}

func valKey(v ssa.Value, depth int) string {
	if v == nil {
		return "<nil>"
	}
	if depth > 12 {
		return fmt.Sprintf("@%p", v)
	}
	switch x := v.(type) {
	case *ssa.Const:
		if x.Value == nil {
			return "nil"
		}
		return "c:" + x.Value.ExactString()
	case *ssa.Parameter:
		return "p:" + x.Name()
	case *ssa.FreeVar:
		return "fv:" + x.Name()
	case *ssa.Global:
		return "g:" + x.String()
	case *ssa.Function:
		return "fn:" + x.String()
	case *ssa.Alloc:
		return fmt.Sprintf("alloc:%s@%d", x.Comment, x.Pos())
	case *ssa.FieldAddr:
		return "&(" + valKey(x.X, depth+1) + ")." + fieldName(x.X.Type(), x.Field)
	case *ssa.Field:
		return "(" + valKey(x.X, depth+1) + ")." + fieldName(x.X.Type(), x.Field)
	case *ssa.IndexAddr:
		return "&(" + valKey(x.X, depth+1) + ")[" + valKey(x.Index, depth+1) + "]"
	case *ssa.Index:
		return "(" + valKey(x.X, depth+1) + ")[" + valKey(x.Index, depth+1) + "]"
	case *ssa.UnOp:
		if x.Op == token.MUL {
			return "*(" + valKey(x.X, depth+1) + ")" + loadClass(x)
		}
		return x.Op.String() + "(" + valKey(x.X, depth+1) + ")"
	case *ssa.BinOp:
		return "(" + valKey(x.X, depth+1) + " " + x.Op.String() + " " + valKey(x.Y, depth+1) + ")"
	case *ssa.Convert:
		return "conv[" + x.Type().String() + "](" + valKey(x.X, depth+1) + ")"
	case *ssa.ChangeType:
		return valKey(x.X, depth+1)
	case *ssa.ChangeInterface:
		return valKey(x.X, depth+1)
	case *ssa.MakeInterface:
		return "iface(" + valKey(x.X, depth+1) + ")"
	case *ssa.Extract:
		return fmt.Sprintf("ext(%s)#%d", valKey(x.Tuple, depth+1), x.Index)
	case *ssa.Slice:
		return "slice(" + valKey(x.X, depth+1) + "," + valKey(x.Low, depth+1) + "," + valKey(x.High, depth+1) + ")"
	case *ssa.Call:
		if b, ok := x.Call.Value.(*ssa.Builtin); ok && (b.Name() == "len" || b.Name() == "cap") {
			return b.Name() + "(" + valKey(x.Call.Args[0], depth+1) + ")"
		}
		return fmt.Sprintf("call@%p", x)
	}
	return fmt.Sprintf("@%p", v)
}

func fieldName(t types.Type, i int) string {
	if p, ok := t.Underlying().(*types.Pointer); ok {
		t = p.Elem()
	}
	if st, ok := t.Underlying().(*types.Struct); ok && i < st.NumFields() {
		return st.Field(i).Name()
	}
	return fmt.Sprint(i)
}

// FieldOf returns the field object addressed/read by a FieldAddr or Field.
func FieldOf(v ssa.Value) *types.Var {
	var t types.Type
	var i int
	switch x := v.(type) {
	case *ssa.FieldAddr:
		t, i = x.X.Type(), x.Field
	case *ssa.Field:
		t, i = x.X.Type(), x.Field
	default:
		return nil
	}
	if p, ok := t.Underlying().(*types.Pointer); ok {
		t = p.Elem()
	}
	if st, ok := t.Underlying().(*types.Struct); ok && i < st.NumFields() {
		return st.Field(i)
	}
	return nil
}

// ---- instructions and blocks -----------------------------------------------

// Instrs calls fn for every instruction of f.
func Instrs(f *ssa.Function, fn func(ssa.Instruction)) {
	for _, b := range f.Blocks {
		for _, in := range b.Instrs {
			fn(in)
		}
	}
}

// CallsIn returns the call instructions of f (Call, Defer, Go) in block order.
func CallsIn(f *ssa.Function) []ssa.CallInstruction {
	var out []ssa.CallInstruction
	Instrs(f, func(in ssa.Instruction) {
		if c, ok := in.(ssa.CallInstruction); ok {
			out = append(out, c)
		}
	})
	return out
}

// CalleeName describes the callee of a call: static function, interface
// method or builtin.
func CalleeName(c ssa.CallInstruction) string {
	cc := c.Common()
	if cc.IsInvoke() {
		return "(" + types.TypeString(cc.Value.Type(), shortQual) + ")." + cc.Method.Name()
	}
	if f := cc.StaticCallee(); f != nil {
		return FuncName(f)
	}
	if b, ok := cc.Value.(*ssa.Builtin); ok {
		return "builtin." + b.Name()
	}
	return "dynamic"
}

func shortQual(p *types.Package) string { return p.Name() }

// IsCallTo reports whether c statically calls f or invokes an interface method
// that f implements (same name, f's receiver implements the interface).
func IsCallTo(c ssa.CallInstruction, f *ssa.Function) bool {
	cc := c.Common()
	if cc.IsInvoke() {
		if f.Signature.Recv() == nil || cc.Method.Name() != f.Name() {
			return false
		}
		it, ok := cc.Value.Type().Underlying().(*types.Interface)
		if !ok {
			return false
		}
		return types.Implements(f.Signature.Recv().Type(), it)
	}
	return cc.StaticCallee() == f
}

// InvokesMethod reports whether c is an interface invoke of a method with the
// given name on an interface whose (named) type is pkgpath.name; static calls
// to a concrete method of that name on a type implementing the interface also
// match.
func IsMethodCall(c ssa.CallInstruction, name string) (recv ssa.Value, ok bool) {
	cc := c.Common()
	if cc.IsInvoke() {
		if cc.Method.Name() == name {
			return cc.Value, true
		}
		return nil, false
	}
	if f := cc.StaticCallee(); f != nil && f.Signature.Recv() != nil && f.Name() == name && len(cc.Args) > 0 {
		return cc.Args[0], true
	}
	return nil, false
}

// InstrIndex returns the index of in within its block.
func InstrIndex(in ssa.Instruction) int {
	for i, x := range in.Block().Instrs {
		if x == in {
			return i
		}
	}
	return -1
}

// InstrDominates: a executes before b on every path to b.
func InstrDominates(a, b ssa.Instruction) bool {
	if a.Block() == b.Block() {
		return InstrIndex(a) < InstrIndex(b)
	}
	return a.Block().Dominates(b.Block())
}

// ---- reachability -----------------------------------------------------------

type edge struct{ from, to *ssa.BasicBlock }

// reach computes blocks reachable from start without using edges for which
// cut returns true.
func reach(start *ssa.BasicBlock, cut func(from *ssa.BasicBlock, succIdx int) bool) map[*ssa.BasicBlock]bool {
	seen := map[*ssa.BasicBlock]bool{start: true}
	work := []*ssa.BasicBlock{start}
	for len(work) > 0 {
		b := work[len(work)-1]
		work = work[:len(work)-1]
		for i, s := range b.Succs {
			if cut != nil && cut(b, i) {
				continue
			}
			if !seen[s] {
				seen[s] = true
				work = append(work, s)
			}
		}
	}
	return seen
}

// Reachable reports whether block `to` can be reached from `from` (from == to
// counts only if a cycle exists... callers that need that use ReachableStrict).
func Reachable(from, to *ssa.BasicBlock) bool {
	return reach(from, nil)[to]
}

// ReachableAfter reports whether instruction b can execute after instruction a
// on some path (same block later, or via successors, including loops).
func ReachableAfter(a, b ssa.Instruction) bool {
	if a.Block() == b.Block() && InstrIndex(a) < InstrIndex(b) {
		return true
	}
	for _, s := range a.Block().Succs {
		if s == b.Block() || reach(s, nil)[b.Block()] {
			return true
		}
	}
	return false
}

// EdgeDominates: every path from entry to target uses the edge from.Succs[k].
func EdgeDominates(from *ssa.BasicBlock, k int, target *ssa.BasicBlock) bool {
	f := from.Parent()
	r := reach(f.Blocks[0], func(b *ssa.BasicBlock, i int) bool { return b == from && i == k })
	return !r[target]
}

// ---- guards -----------------------------------------------------------------

// Atom is one tested boolean value with its outcome on a path.
type Atom struct {
	Key string
	Val bool
}

// condAtom normalises an If condition: strips negations. Returns the key of
// the underlying atom and whether the condition equals the atom (true) or its
// negation (false).
func condAtom(v ssa.Value) (string, bool) {
	pos := true
	for {
		if u, ok := v.(*ssa.UnOp); ok && u.Op == token.NOT {
			pos = !pos
			v = u.X
			continue
		}
		break
	}
	if b, ok := v.(*ssa.BinOp); ok {
		// canonicalise comparisons: a != b  ==  !(a == b); a >= b == !(a < b); a > b == !(a <= b)
		x, y := ValKey(b.X), ValKey(b.Y)
		if isFloat(b.X.Type()) {
			// with NaN, a >= b is not !(a < b): only swap operands, never negate
			switch b.Op {
			case token.LSS:
				return "(" + x + " < " + y + ")", pos
			case token.GTR:
				return "(" + y + " < " + x + ")", pos
			case token.LEQ:
				return "(" + x + " <= " + y + ")", pos
			case token.GEQ:
				return "(" + y + " <= " + x + ")", pos
			}
		}
		switch b.Op {
		case token.EQL, token.NEQ:
			if x > y {
				x, y = y, x
			}
			if b.Op == token.NEQ {
				pos = !pos
			}
			return "(" + x + " == " + y + ")", pos
		case token.LSS:
			return "(" + x + " < " + y + ")", pos
		case token.GEQ:
			return "(" + x + " < " + y + ")", !pos
		case token.GTR: // x > y  ==  y < x
			return "(" + y + " < " + x + ")", pos
		case token.LEQ: // x <= y == !(y < x)
			return "(" + y + " < " + x + ")", !pos
		}
	}
	return ValKey(v), pos
}

func isFloat(t types.Type) bool {
	b, ok := t.Underlying().(*types.Basic)
	return ok && b.Info()&types.IsFloat != 0
}

// EqKey is the atom key of "a == b".
func EqKey(a, b ssa.Value) string {
	x, y := ValKey(a), ValKey(b)
	if x > y {
		x, y = y, x
	}
	return "(" + x + " == " + y + ")"
}

// LtKey is the atom key of "a < b".
func LtKey(a, b ssa.Value) string { return "(" + ValKey(a) + " < " + ValKey(b) + ")" }

// AtomInfo is the canonical structure behind an atom key: Kind "eq" (A == B),
// "lt" (A < B), "le" (A <= B, floats only) or "bool" (A itself).
type AtomInfo struct {
	Key  string
	Kind string
	A, B ssa.Value
}

// Fact is an atom with its truth value on every feasible path to a block.
type Fact struct {
	AtomInfo
	Truth bool
}

// atomInfo returns the canonical structure of an If condition and whether
// the condition equals the atom (true) or its negation.
func atomInfo(v ssa.Value) (AtomInfo, bool) {
	key, pos := condAtom(v)
	for {
		if u, ok := v.(*ssa.UnOp); ok && u.Op == token.NOT {
			v = u.X
			continue
		}
		break
	}
	ai := AtomInfo{Key: key, Kind: "bool", A: v}
	if b, ok := v.(*ssa.BinOp); ok {
		fl := isFloat(b.X.Type())
		switch b.Op {
		case token.EQL, token.NEQ:
			ai.Kind, ai.A, ai.B = "eq", b.X, b.Y
		case token.LSS:
			ai.Kind, ai.A, ai.B = "lt", b.X, b.Y
		case token.GTR:
			ai.Kind, ai.A, ai.B = "lt", b.Y, b.X
		case token.GEQ:
			if fl {
				ai.Kind, ai.A, ai.B = "le", b.Y, b.X
			} else {
				ai.Kind, ai.A, ai.B = "lt", b.X, b.Y
			}
		case token.LEQ:
			if fl {
				ai.Kind, ai.A, ai.B = "le", b.X, b.Y
			} else {
				ai.Kind, ai.A, ai.B = "lt", b.Y, b.X
			}
		}
	}
	return ai, pos
}

// FactsOn returns the atoms that have the same truth value on every feasible
// path to the target block, with their structure.
func FactsOn(f *ssa.Function, target *ssa.BasicBlock) ([]Fact, bool) {
	atoms, ok := AtomsOn(f, target)
	if !ok {
		return nil, false
	}
	infos := map[string]AtomInfo{}
	for _, b := range f.Blocks {
		if iff, isIf := b.Instrs[len(b.Instrs)-1].(*ssa.If); isIf {
			ai, _ := atomInfo(iff.Cond)
			if _, had := infos[ai.Key]; !had {
				infos[ai.Key] = ai
			}
		}
	}
	var out []Fact
	for k, v := range atoms {
		if ai, ok := infos[k]; ok {
			out = append(out, Fact{ai, v})
		}
	}
	sort.Slice(out, func(i, j int) bool { return out[i].Key < out[j].Key })
	return out, true
}

// CondAtom is the exported form of condAtom.
func CondAtom(v ssa.Value) (string, bool) { return condAtom(v) }

// PathFacts enumerates the feasible acyclic paths from the entry of f to the
// target block and returns, for each, the outcomes of the tested atoms. A path
// is infeasible when it takes contradictory outcomes of structurally equal
// atoms. ok=false when more than limit paths exist (caller falls back to
// dominance).
func PathFacts(f *ssa.Function, target *ssa.BasicBlock, limit int) (paths []map[string]bool, ok bool) {
	return PathFactsAvoid(f, target, nil, limit)
}

// PathFactsAvoid is PathFacts restricted to paths that do not pass through any
// block of avoid ("every path that skips X must satisfy ...").
func PathFactsAvoid(f *ssa.Function, target *ssa.BasicBlock, avoid map[*ssa.BasicBlock]bool, limit int) (paths []map[string]bool, ok bool) {
	// Only explore blocks from which the target is reachable.
	canReach := map[*ssa.BasicBlock]bool{}
	for _, b := range f.Blocks {
		if b == target || reach(b, nil)[target] {
			canReach[b] = true
		}
	}
	onPath := map[*ssa.BasicBlock]bool{}
	facts := map[string]bool{}
	ok = true
	var dfs func(b *ssa.BasicBlock)
	dfs = func(b *ssa.BasicBlock) {
		if !ok {
			return
		}
		if b == target {
			cp := make(map[string]bool, len(facts))
			for k, v := range facts {
				cp[k] = v
			}
			paths = append(paths, cp)
			if len(paths) > limit {
				ok = false
			}
			return
		}
		if onPath[b] || avoid[b] {
			return
		}
		onPath[b] = true
		defer func() { onPath[b] = false }()
		if iff, isIf := b.Instrs[len(b.Instrs)-1].(*ssa.If); isIf {
			key, pos := condAtom(iff.Cond)
			for i, s := range b.Succs {
				if !canReach[s] {
					continue
				}
				outcome := (i == 0) == pos // succ 0 is the true edge of Cond
				if prev, had := facts[key]; had {
					if prev != outcome {
						continue // contradictory: infeasible
					}
					dfs(s)
					continue
				}
				facts[key] = outcome
				dfs(s)
				delete(facts, key)
			}
			return
		}
		for _, s := range b.Succs {
			if canReach[s] {
				dfs(s)
			}
		}
	}
	dfs(f.Blocks[0])
	return paths, ok
}

// ---- load classes -----------------------------------------------------------
//
// Two loads of the same address are given the same class (and therefore the
// same structural key) only when no writer of that cell can execute between
// them, in either order. Writers are stores to the same or an enclosing /
// enclosed address, and calls that are handed the address, its root pointer or
// (for fields of a pointer-typed root) the root object itself.

type loadClassCache struct {
	class map[*ssa.UnOp]string
}

var loadClasses = map[*ssa.Function]*loadClassCache{}

func addrKeyNoClass(a ssa.Value) string {
	switch x := a.(type) {
	case *ssa.FieldAddr:
		return "&(" + addrKeyNoClass(x.X) + ")." + fieldName(x.X.Type(), x.Field)
	case *ssa.IndexAddr:
		return "&(" + addrKeyNoClass(x.X) + ")[" + valKey(x.Index, 8) + "]"
	case *ssa.UnOp:
		if x.Op == token.MUL {
			return "*(" + addrKeyNoClass(x.X) + ")"
		}
	}
	return valKey(a, 8)
}

func loadClass(ld *ssa.UnOp) string {
	f := ld.Parent()
	if f == nil {
		return ""
	}
	c := loadClasses[f]
	if c == nil {
		c = &loadClassCache{class: map[*ssa.UnOp]string{}}
		loadClasses[f] = c
		computeLoadClasses(f, c)
	}
	return c.class[ld]
}

func computeLoadClasses(f *ssa.Function, c *loadClassCache) {
	type ldInfo struct {
		ld   *ssa.UnOp
		key  string
		root ssa.Value
	}
	byKey := map[string][]ldInfo{}
	var keys []string
	Instrs(f, func(in ssa.Instruction) {
		if u, ok := in.(*ssa.UnOp); ok && u.Op == token.MUL {
			k := addrKeyNoClass(u.X)
			if _, had := byKey[k]; !had {
				keys = append(keys, k)
			}
			byKey[k] = append(byKey[k], ldInfo{u, k, AddrRoot(u.X)})
		}
	})
	// writers per address key
	writersOf := func(li ldInfo) []ssa.Instruction {
		var ws []ssa.Instruction
		rootKey := ""
		if li.root != nil {
			rootKey = addrKeyNoClass(li.root)
		}
		path := AddrPath(li.ld.X)
		Instrs(f, func(in ssa.Instruction) {
			switch x := in.(type) {
			case *ssa.Store:
				if AddrRoot(x.Addr) == li.root || addrKeyNoClass(AddrRoot(x.Addr)) == rootKey {
					p := AddrPath(x.Addr)
					if strings.HasPrefix(p, path) || strings.HasPrefix(path, p) {
						ws = append(ws, in)
					}
				}
			case ssa.CallInstruction:
				cc := x.Common()
				if b, ok := cc.Value.(*ssa.Builtin); ok && (b.Name() == "len" || b.Name() == "cap" || b.Name() == "append" || b.Name() == "copy" || b.Name() == "delete") {
					return
				}
				args := append([]ssa.Value{}, cc.Args...)
				if cc.IsInvoke() {
					args = append(args, cc.Value)
				}
				for _, a := range args {
					if _, isPtr := a.Type().Underlying().(*types.Pointer); !isPtr {
						continue
					}
					ak := addrKeyNoClass(a)
					if ak == rootKey || ak == li.key || AddrRoot(a) == li.root && li.root != nil {
						// a callee with a visible body that stores to no field of that name
						// (nor hands its pointers on) cannot write the cell
						if sc := cc.StaticCallee(); sc != nil && !cc.IsInvoke() && len(sc.Blocks) > 0 && !mayWriteField(sc, fieldOfAddr(li.ld.X), 0, map[*ssa.Function]bool{}) {
							continue
						}
						ws = append(ws, in)
					}
				}
			case *ssa.MapUpdate:
				_ = x
			}
		})
		return ws
	}
	for _, k := range keys {
		lds := byKey[k]
		if len(lds) == 0 {
			continue
		}
		ws := writersOf(lds[0])
		reps := []*ssa.UnOp{}
		for _, li := range lds {
			assigned := false
			for i, rep := range reps {
				between := false
				for _, w := range ws {
					if ReachableAfter(rep, w) && ReachableAfter(w, li.ld) || ReachableAfter(li.ld, w) && ReachableAfter(w, rep) {
						between = true
						break
					}
				}
				if !between {
					c.class[li.ld] = fmt.Sprintf("#%d", i)
					assigned = true
					break
				}
			}
			if !assigned {
				reps = append(reps, li.ld)
				c.class[li.ld] = fmt.Sprintf("#%d", len(reps)-1)
			}
		}
	}
}

// fieldOfAddr: the innermost struct field an address goes through ("" if none).
func fieldOfAddr(a ssa.Value) string {
	for {
		switch x := a.(type) {
		case *ssa.FieldAddr:
			return fieldName(x.X.Type(), x.Field)
		case *ssa.IndexAddr:
			a = x.X
		default:
			return ""
		}
	}
}

// mayWriteField: f (or a callee with a visible body, depth <= 3) stores to a
// struct field named name, or calls something without a visible body while
// holding pointers (conservatively a writer).
func mayWriteField(f *ssa.Function, name string, depth int, seen map[*ssa.Function]bool) bool {
	if name == "" || depth > 3 {
		return true
	}
	if seen[f] {
		return false
	}
	seen[f] = true
	w := false
	Instrs(f, func(in ssa.Instruction) {
		if w {
			return
		}
		switch x := in.(type) {
		case *ssa.Store:
			if fieldOfAddr(x.Addr) == name {
				w = true
			}
		case ssa.CallInstruction:
			cc := x.Common()
			if _, isB := cc.Value.(*ssa.Builtin); isB {
				return
			}
			hasPtr := false
			for _, a := range cc.Args {
				if _, ok := a.Type().Underlying().(*types.Pointer); ok {
					hasPtr = true
				}
			}
			if !hasPtr && !cc.IsInvoke() {
				return
			}
			sc := cc.StaticCallee()
			if cc.IsInvoke() || sc == nil || len(sc.Blocks) == 0 {
				// unknown body: only a writer if it could reach the struct (pointer handed on)
				if hasPtr {
					w = true
				}
				return
			}
			if mayWriteField(sc, name, depth+1, seen) {
				w = true
			}
		}
	})
	return w
}

// loadUnstable reports whether the condition depends on a load that two
// structurally equal loads could observe differently: a local (Alloc-rooted)
// cell that is stored more than once, or a heap cell that the function itself
// stores to. (Heap cells written by callees are not tracked: conditions the
// rules look at are read under the owner's lock or are locals.)
func loadUnstable(v ssa.Value) bool {
	unstable := false
	var walk func(v ssa.Value, d int)
	walk = func(v ssa.Value, d int) {
		if v == nil || d > 12 || unstable {
			return
		}
		switch x := v.(type) {
		case *ssa.UnOp:
			if x.Op == token.MUL && !loadStable(x) {
				unstable = true
			}
			walk(x.X, d+1)
		case *ssa.BinOp:
			walk(x.X, d+1)
			walk(x.Y, d+1)
		case *ssa.Field:
			walk(x.X, d+1)
		case *ssa.FieldAddr:
			walk(x.X, d+1)
		case *ssa.IndexAddr:
			walk(x.X, d+1)
			walk(x.Index, d+1)
		case *ssa.Extract:
			walk(x.Tuple, d+1)
		case *ssa.Convert:
			walk(x.X, d+1)
		case *ssa.Call:
			if b, ok := x.Call.Value.(*ssa.Builtin); ok && (b.Name() == "len" || b.Name() == "cap") {
				walk(x.Call.Args[0], d+1)
			}
		}
	}
	walk(v, 0)
	return unstable
}

// AddrRoot strips FieldAddr/IndexAddr and returns the base value.
func AddrRoot(a ssa.Value) ssa.Value {
	for {
		switch x := a.(type) {
		case *ssa.FieldAddr:
			a = x.X
		case *ssa.IndexAddr:
			a = x.X
		default:
			return a
		}
	}
}

// AddrPath renders the field/index path below the root of an address.
func AddrPath(a ssa.Value) string {
	switch x := a.(type) {
	case *ssa.FieldAddr:
		return AddrPath(x.X) + "." + fieldName(x.X.Type(), x.Field)
	case *ssa.IndexAddr:
		return AddrPath(x.X) + "[" + ValKey(x.Index) + "]"
	}
	return ""
}

func loadStable(ld *ssa.UnOp) bool {
	f := ld.Parent()
	root := AddrRoot(ld.X)
	key := ValKey(ld.X)
	n := 0
	if al, ok := root.(*ssa.Alloc); ok {
		Instrs(f, func(in ssa.Instruction) {
			if s, ok := in.(*ssa.Store); ok && AddrRoot(s.Addr) == al {
				a, b := AddrPath(s.Addr), AddrPath(ld.X)
				if strings.HasPrefix(a, b) || strings.HasPrefix(b, a) {
					n++
				}
			}
		})
		return n <= 1
	}
	Instrs(f, func(in ssa.Instruction) {
		if s, ok := in.(*ssa.Store); ok && ValKey(s.Addr) == key {
			n++
		}
	})
	return n == 0
}

// GuardedBy reports whether every feasible path to the target block carries
// atom key with outcome val. Falls back to edge dominance over the If
// instructions testing that atom when the path count explodes.
func GuardedBy(f *ssa.Function, target *ssa.BasicBlock, key string, val bool) (bool, string) {
	paths, ok := PathFacts(f, target, 4096)
	if ok {
		if len(paths) == 0 {
			return true, "target unreachable on any feasible path"
		}
		for _, p := range paths {
			v, had := p[key]
			if !had || v != val {
				return false, "feasible path reaches the target without " + fmtAtom(key, val) + ": " + fmtFacts(p)
			}
		}
		return true, fmt.Sprintf("%d feasible paths, all with %s", len(paths), fmtAtom(key, val))
	}
	// fallback: some If on the atom whose matching edge dominates the target
	for _, b := range f.Blocks {
		if iff, isIf := b.Instrs[len(b.Instrs)-1].(*ssa.If); isIf {
			k, pos := condAtom(iff.Cond)
			if k != key {
				continue
			}
			idx := 1
			if pos == val {
				idx = 0
			}
			if EdgeDominates(b, idx, target) {
				return true, "edge-dominated (path enumeration exceeded limit)"
			}
		}
	}
	return false, "not edge-dominated and too many paths to enumerate"
}

func fmtAtom(key string, val bool) string {
	if val {
		return key
	}
	return "!" + key
}

func fmtFacts(p map[string]bool) string {
	var ks []string
	for k, v := range p {
		ks = append(ks, fmtAtom(k, v))
	}
	sort.Strings(ks)
	return strings.Join(ks, " && ")
}

// AtomsOn collects, for block target, the atoms that hold on every feasible
// path (the intersection of path facts).
func AtomsOn(f *ssa.Function, target *ssa.BasicBlock) (map[string]bool, bool) {
	paths, ok := PathFacts(f, target, 4096)
	if !ok {
		return nil, false
	}
	if len(paths) == 0 {
		return map[string]bool{}, true
	}
	out := map[string]bool{}
	for k, v := range paths[0] {
		out[k] = v
	}
	for _, p := range paths[1:] {
		for k, v := range out {
			if pv, had := p[k]; !had || pv != v {
				delete(out, k)
			}
		}
	}
	return out, true
}

// Returns lists the Return instructions of f.
func Returns(f *ssa.Function) []*ssa.Return {
	var out []*ssa.Return
	Instrs(f, func(in ssa.Instruction) {
		if r, ok := in.(*ssa.Return); ok {
			out = append(out, r)
		}
	})
	return out
}

// Referrers returns the instructions using v (nil-safe).
func Referrers(v ssa.Value) []ssa.Instruction {
	if r := v.Referrers(); r != nil {
		return *r
	}
	return nil
}
