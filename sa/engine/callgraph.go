package engine

import (
	"go/types"
	"sort"
	"strings"

	"golang.org/x/tools/go/ssa"
)

// CGEdge is one resolved call: site in Caller may call Callee.
type CGEdge struct {
	Caller *ssa.Function
	Site   ssa.Instruction // CallInstruction, or the MakeClosure handed to foreign code
	Callee *ssa.Function
	Kind   string // static | invoke | dynamic | closure-arg
}

// RepoCG is a class-hierarchy call graph restricted to repository functions:
// static calls, interface invokes resolved to every repo implementer, calls of
// function values resolved to every address-taken repo function of identical
// signature, and closures handed to foreign code (treated as called there).
type RepoCG struct {
	P     *Program
	Funcs []*ssa.Function
	Out   map[*ssa.Function][]CGEdge
	In    map[*ssa.Function][]CGEdge
}

func (p *Program) RepoCG() *RepoCG {
	if p.rcg != nil {
		return p.rcg
	}
	g := &RepoCG{P: p, Out: map[*ssa.Function][]CGEdge{}, In: map[*ssa.Function][]CGEdge{}}
	g.Funcs = p.RepoFuncs()
	isRepo := map[*ssa.Function]bool{}
	for _, f := range g.Funcs {
		isRepo[f] = true
	}
	// address-taken functions
	taken := map[*ssa.Function]bool{}
	for _, f := range g.Funcs {
		Instrs(f, func(in ssa.Instruction) {
			var ops []*ssa.Value
			ops = in.Operands(ops)
			for i, op := range ops {
				if op == nil || *op == nil {
					continue
				}
				var fn *ssa.Function
				switch v := (*op).(type) {
				case *ssa.Function:
					fn = v
				case *ssa.MakeClosure:
					fn = v.Fn.(*ssa.Function)
				}
				if fn == nil || !isRepo[fn] {
					continue
				}
				if c, ok := in.(ssa.CallInstruction); ok && i == 0 && !c.Common().IsInvoke() {
					continue // call position
				}
				taken[fn] = true
			}
			if mc, ok := in.(*ssa.MakeClosure); ok {
				if fn, ok := mc.Fn.(*ssa.Function); ok && isRepo[fn] {
					// a closure value exists; whether it is taken depends on its uses
					for _, ref := range Referrers(mc) {
						if c, ok := ref.(ssa.CallInstruction); ok && c.Common().Value == mc {
							continue
						}
						taken[fn] = true
					}
				}
			}
		})
	}
	// named repo types for invoke resolution
	var named []types.Type
	for _, pk := range p.Pkgs {
		sc := pk.Types.Scope()
		for _, n := range sc.Names() {
			if tn, ok := sc.Lookup(n).(*types.TypeName); ok && !tn.IsAlias() {
				if _, isIface := tn.Type().Underlying().(*types.Interface); isIface {
					continue
				}
				named = append(named, tn.Type(), types.NewPointer(tn.Type()))
			}
		}
	}
	implCache := map[string][]*ssa.Function{}
	impls := func(it *types.Interface, m *types.Func) []*ssa.Function {
		key := it.String() + "." + m.Name()
		if r, ok := implCache[key]; ok {
			return r
		}
		var out []*ssa.Function
		seen := map[*ssa.Function]bool{}
		for _, T := range named {
			if !types.Implements(T, it) {
				continue
			}
			sel := p.SSA.MethodSets.MethodSet(T).Lookup(m.Pkg(), m.Name())
			if sel == nil {
				continue
			}
			fn := p.SSA.MethodValue(sel)
			if fn == nil {
				continue
			}
			// unwrap promoted-method wrappers to the declared method
			for fn.Synthetic != "" {
				var inner *ssa.Function
				Instrs(fn, func(in ssa.Instruction) {
					if c, ok := in.(ssa.CallInstruction); ok {
						if sc := c.Common().StaticCallee(); sc != nil {
							inner = sc
						}
					}
				})
				if inner == nil || inner == fn {
					break
				}
				fn = inner
			}
			if isRepo[fn] && !seen[fn] {
				seen[fn] = true
				out = append(out, fn)
			}
		}
		implCache[key] = out
		return out
	}
	add := func(e CGEdge) {
		g.Out[e.Caller] = append(g.Out[e.Caller], e)
		g.In[e.Callee] = append(g.In[e.Callee], e)
	}
	type dynSite struct {
		caller *ssa.Function
		site   ssa.CallInstruction
	}
	var dynSites []dynSite
	for _, f := range g.Funcs {
		caller := f
		Instrs(f, func(in ssa.Instruction) {
			c, ok := in.(ssa.CallInstruction)
			if !ok {
				return
			}
			cc := c.Common()
			resolvedRepo := false
			switch {
			case cc.IsInvoke():
				if it, ok := cc.Value.Type().Underlying().(*types.Interface); ok {
					for _, fn := range impls(it, cc.Method) {
						add(CGEdge{caller, in, fn, "invoke"})
						resolvedRepo = true
					}
				}
			default:
				if sc := cc.StaticCallee(); sc != nil {
					for sc.Synthetic != "" && !isRepo[sc] { // wrapper/thunk
						var inner *ssa.Function
						Instrs(sc, func(i2 ssa.Instruction) {
							if c2, ok := i2.(ssa.CallInstruction); ok {
								if x := c2.Common().StaticCallee(); x != nil {
									inner = x
								}
							}
						})
						if inner == nil {
							break
						}
						sc = inner
					}
					if isRepo[sc] {
						add(CGEdge{caller, in, sc, "static"})
						resolvedRepo = true
					}
				} else if _, isB := cc.Value.(*ssa.Builtin); !isB {
					if mc, ok := cc.Value.(*ssa.MakeClosure); ok {
						if fn, ok := mc.Fn.(*ssa.Function); ok && isRepo[fn] {
							add(CGEdge{caller, in, fn, "static"})
						}
					} else {
						dynSites = append(dynSites, dynSite{caller, c})
					}
					resolvedRepo = true // closure args of a dynamic call are handled with the site
				}
			}
			if !resolvedRepo {
				// closures / repo functions handed to foreign code are called there
				for _, a := range cc.Args {
					var fn *ssa.Function
					if ct, ok := a.(*ssa.ChangeType); ok {
						a = ct.X
					}
					switch v := a.(type) {
					case *ssa.MakeClosure:
						fn, _ = v.Fn.(*ssa.Function)
					case *ssa.Function:
						fn = v
					}
					if fn != nil && isRepo[fn] {
						add(CGEdge{caller, in, fn, "closure-arg"})
					}
				}
			}
		})
	}
	// Function values flowing through parameters: PV[f][i] = functions that may
	// be bound to parameter i of f (one call-string level per forwarding step,
	// iterated to a fixpoint). A call of a parameter resolves to PV; any other
	// function-valued callee falls back to every address-taken repo function of
	// identical signature.
	pv := map[*ssa.Function]map[int]map[*ssa.Function]bool{}
	addPV := func(f *ssa.Function, i int, fn *ssa.Function) bool {
		if pv[f] == nil {
			pv[f] = map[int]map[*ssa.Function]bool{}
		}
		if pv[f][i] == nil {
			pv[f][i] = map[*ssa.Function]bool{}
		}
		if pv[f][i][fn] {
			return false
		}
		pv[f][i][fn] = true
		return true
	}
	unknownPV := map[*ssa.Function]map[int]bool{} // parameter may receive a value we cannot enumerate
	paramIndex := func(f *ssa.Function, v ssa.Value) int {
		for i, q := range f.Params {
			if ssa.Value(q) == v {
				return i
			}
		}
		return -1
	}
	for changed := true; changed; {
		changed = false
		for _, f := range g.Funcs {
			for _, e := range g.Out[f] {
				c, ok := e.Site.(ssa.CallInstruction)
				if !ok || e.Kind == "closure-arg" || e.Kind == "dynamic" {
					continue
				}
				cc := c.Common()
				off := 0
				if cc.IsInvoke() {
					off = 1 // callee.Params[0] is the receiver, not in Args
				}
				for j, a := range cc.Args {
					if _, isSig := a.Type().Underlying().(*types.Signature); !isSig {
						continue
					}
					idx := j + off
					if idx >= len(e.Callee.Params) {
						continue
					}
					for {
						if ct, ok := a.(*ssa.ChangeType); ok {
							a = ct.X
							continue
						}
						break
					}
					switch v := a.(type) {
					case *ssa.MakeClosure:
						if fn, ok := v.Fn.(*ssa.Function); ok && addPV(e.Callee, idx, fn) {
							changed = true
						}
					case *ssa.Function:
						if addPV(e.Callee, idx, v) {
							changed = true
						}
					case *ssa.Parameter:
						if qi := paramIndex(f, v); qi >= 0 {
							for fn := range pv[f][qi] {
								if addPV(e.Callee, idx, fn) {
									changed = true
								}
							}
							if unknownPV[f][qi] {
								if unknownPV[e.Callee] == nil {
									unknownPV[e.Callee] = map[int]bool{}
								}
								if !unknownPV[e.Callee][idx] {
									unknownPV[e.Callee][idx] = true
									changed = true
								}
							}
						}
					default:
						if unknownPV[e.Callee] == nil {
							unknownPV[e.Callee] = map[int]bool{}
						}
						if !unknownPV[e.Callee][idx] {
							unknownPV[e.Callee][idx] = true
							changed = true
						}
					}
				}
			}
		}
	}
	hasRepoCaller := map[*ssa.Function]bool{}
	for f, in := range g.In {
		if len(in) > 0 {
			hasRepoCaller[f] = true
		}
	}
	for _, ds := range dynSites {
		cc := ds.site.Common()
		sig, _ := cc.Value.Type().Underlying().(*types.Signature)
		resolved := false
		if prm, ok := cc.Value.(*ssa.Parameter); ok {
			qi := paramIndex(ds.caller, prm)
			exported := ds.caller.Object() != nil && ds.caller.Object().Exported() && ds.caller.Parent() == nil
			if qi >= 0 && !unknownPV[ds.caller][qi] && len(pv[ds.caller][qi]) > 0 && !(exported && false) {
				for fn := range pv[ds.caller][qi] {
					add(CGEdge{ds.caller, ds.site, fn, "dynamic"})
				}
				resolved = true
			}
		}
		if !resolved {
			for fn := range taken {
				if sig != nil && types.Identical(fn.Signature, sig) {
					add(CGEdge{ds.caller, ds.site, fn, "dynamic"})
				}
			}
		}
	}
	p.rcg = g
	return g
}

// Reach returns every repo function reachable from the roots (roots included).
func (g *RepoCG) Reach(roots ...*ssa.Function) map[*ssa.Function]bool {
	seen := map[*ssa.Function]bool{}
	work := append([]*ssa.Function{}, roots...)
	for len(work) > 0 {
		f := work[len(work)-1]
		work = work[:len(work)-1]
		if f == nil || seen[f] {
			continue
		}
		seen[f] = true
		for _, e := range g.Out[f] {
			if !seen[e.Callee] {
				work = append(work, e.Callee)
			}
		}
	}
	return seen
}

// PathTo returns one call path from root to target as function names.
func (g *RepoCG) PathTo(root, target *ssa.Function) []string {
	prev := map[*ssa.Function]*ssa.Function{root: nil}
	work := []*ssa.Function{root}
	for len(work) > 0 {
		f := work[0]
		work = work[1:]
		if f == target {
			var out []string
			for x := target; x != nil; x = prev[x] {
				out = append([]string{FuncName(x)}, out...)
			}
			return out
		}
		for _, e := range g.Out[f] {
			if _, ok := prev[e.Callee]; !ok {
				prev[e.Callee] = f
				work = append(work, e.Callee)
			}
		}
	}
	return nil
}

// Callers returns the distinct functions with an edge to f, sorted by name.
func (g *RepoCG) Callers(f *ssa.Function) []*ssa.Function {
	seen := map[*ssa.Function]bool{}
	var out []*ssa.Function
	for _, e := range g.In[f] {
		if !seen[e.Caller] {
			seen[e.Caller] = true
			out = append(out, e.Caller)
		}
	}
	sort.Slice(out, func(i, j int) bool { return FuncName(out[i]) < FuncName(out[j]) })
	return out
}

// TopFunc returns the enclosing declared function of an anonymous function.
func TopFunc(f *ssa.Function) *ssa.Function {
	for f.Parent() != nil {
		f = f.Parent()
	}
	return f
}

// Names renders a sorted, comma separated list of function names.
func Names(fs []*ssa.Function) string {
	var s []string
	for _, f := range fs {
		s = append(s, FuncName(f))
	}
	sort.Strings(s)
	return strings.Join(s, ", ")
}
