package sw
import (
	"testing"
	"github.com/0chain/common/core/util/wmpt"
	"github.com/fxamacker/cbor/v2"
)
func try(t *testing.T, name string, f func()) { defer func() { if e := recover(); e != nil { t.Errorf("%s: panic: %v", name, e) } }(); f() }
func TestWmptDecodersNoPanic(t *testing.T) {
	child40 := make([]byte, 40)
	var many [][]byte
	for i := 0; i < 17; i++ { many = append(many, child40) }
	b17, _ := cbor.Marshal(&wmpt.PersistNodeBase{Branch: &wmpt.PersistNodeBranch{Hash: make([]byte, 32), Children: many}})
	try(t, "branch with 17 children", func() { wmpt.DeserializeNode(b17) })
	kids := make([][]byte, 16); kids[3] = make([]byte, 50)
	b50, _ := cbor.Marshal(&wmpt.PersistNodeBase{Branch: &wmpt.PersistNodeBranch{Hash: make([]byte, 32), Children: kids}})
	try(t, "embedded child of 50 bytes", func() { wmpt.DeserializeNode(b50) })
	null, _ := cbor.Marshal([]interface{}{[]interface{}{nil}})
	try(t, "proof [[null]]", func() { wmpt.New(nil, nil).VerifyBlockProof(1, null) })
	try(t, "export [[null]]", func() { wmpt.New(nil, nil).Deserialize(null) })
}
