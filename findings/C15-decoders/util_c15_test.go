package util
import (
	"bytes"
	"strings"
	"testing"
)
func header(code byte) []byte { return append([]byte{code}, make([]byte, 16)...) }
func tryCreate(t *testing.T, name string, b []byte) {
	defer func() { if e := recover(); e != nil { t.Errorf("%s: CreateNode panicked: %v", name, e) } }()
	n, err := CreateNode(bytes.NewReader(b))
	if err == nil && n != nil { _ = n.Encode() }
}
func TestDecodersNoPanic(t *testing.T) {
	tryCreate(t, "leaf with one separator", append(header(NodeTypeLeafNode), []byte("ab:cd")...))
	tryCreate(t, "unknown type code 3", header(3))
	tryCreate(t, "unknown type code 0", header(0))
	tryCreate(t, "branch child key of 66 hex digits", append(header(NodeTypeFullNode), []byte(strings.Repeat("ab", 33)+strings.Repeat(":", 16))...))
	tryCreate(t, "branch child key of 64 hex digits (valid)", append(header(NodeTypeFullNode), []byte(strings.Repeat("ab", 32)+strings.Repeat(":", 16))...))
}
