package util

// Witness for known finding C02 AGREE-kindtag (not repaired: the repair changes
// the node-hash format): the hash pre-image of a state-trie node carries no
// node-kind tag. An extension hashes origin || path ':' childkey, a leaf hashes
// origin || prefix ':' path ':' value. With prefix == extension path ("1") the
// two pre-images are equal when childkey == path-of-the-leaf ':' value, so an
// extension over a branch and a leaf holding the tail of that branch's hash as
// its value are one node: two different contents, one root. Even-length
// lowercase-hex paths only (the property's quantifier); found by varying one
// value until the branch hash starts with "1:" (1 in 65536).
//
// run: REPO=/repo /verif/tools/mkscratch_util.sh /tmp/sc && cp zz_kind_confusion_test.go /tmp/sc/util/ && cd /tmp/sc && go test -vet=off -count=1 -run TestKindConfusion ./util/
// (first seen, with odd-length paths and 409 tries, by a round-8 seeding sub-agent)

import (
	"bytes"
	"fmt"
	"testing"

	"github.com/0chain/common/core/logging"
	"github.com/0chain/common/core/statecache"
	"go.uber.org/zap"
)

func TestKindConfusion(t *testing.T) {
	logging.Logger = zap.NewNop()
	build := func(c map[string]string, order []string) *MerklePatriciaTrie {
		m := NewMerklePatriciaTrie(NewMemoryNodeDB(), Sequence(5), nil, statecache.NewEmpty())
		for _, k := range order {
			if _, err := m.Insert(Path(k), &SecureSerializableValue{Buffer: []byte(c[k])}); err != nil {
				t.Fatal(err)
			}
		}
		return m
	}
	for i := 0; i < 3000000; i++ {
		a := map[string]string{"11aa": fmt.Sprint("v", i), "11bb": "w", "22": "z"}
		ta := build(a, []string{"11aa", "11bb", "22"})
		rn, _ := ta.db.GetNode(ta.GetRoot())
		ext, ok := rn.(*FullNode)
		if !ok {
			t.Fatal("root is not a branch")
		}
		en, _ := ta.db.GetNode(ext.GetChild('1'))
		k := en.(*ExtensionNode).NodeKey
		if k[0] != '1' || k[1] != ':' {
			continue
		}
		b := map[string]string{"11": string(k[2:]), "22": "z"}
		tb := build(b, []string{"11", "22"})
		if bytes.Equal(ta.GetRoot(), tb.GetRoot()) {
			t.Logf("after %d tries: different content, same root %x:\n A = %q\n B = %q", i, ta.GetRoot(), a, b)
			t.Fail()
		}
		return
	}
	t.Skip("no branch hash starting with \"1:\" found in the budget")
}
