package demo

import (
	"crypto/sha256"
	"errors"
	"strconv"
	"sync"
	"testing"

	"github.com/0chain/common/core/util/storage"
	"github.com/0chain/common/core/util/wmpt"
)

// memDB is an in-memory storage.StorageAdapter; missing keys answer "pebble: not found".
type memDB struct {
	mu   sync.Mutex
	data map[string][]byte
}

func newMemDB() *memDB { return &memDB{data: map[string][]byte{}} }

func (m *memDB) Get(k []byte) ([]byte, error) {
	m.mu.Lock()
	defer m.mu.Unlock()
	v, ok := m.data[string(k)]
	if !ok {
		return nil, errors.New("pebble: not found")
	}
	return append([]byte(nil), v...), nil
}
func (m *memDB) Put(k, v []byte) error {
	m.mu.Lock()
	defer m.mu.Unlock()
	m.data[string(k)] = append([]byte(nil), v...)
	return nil
}
func (m *memDB) Delete(k []byte) error {
	m.mu.Lock()
	defer m.mu.Unlock()
	delete(m.data, string(k))
	return nil
}
func (m *memDB) Close()                    {}
func (m *memDB) NewBatch() storage.Batcher { return &memBatch{db: m} }
func (m *memDB) snapshot() map[string][]byte {
	m.mu.Lock()
	defer m.mu.Unlock()
	cp := map[string][]byte{}
	for k, v := range m.data {
		cp[k] = v
	}
	return cp
}

type op struct {
	del  bool
	k, v []byte
}
type memBatch struct {
	mu  sync.Mutex
	db  *memDB
	ops []op
}

func (b *memBatch) Put(k, v []byte) error {
	b.mu.Lock()
	defer b.mu.Unlock()
	b.ops = append(b.ops, op{k: append([]byte(nil), k...), v: append([]byte(nil), v...)})
	return nil
}
func (b *memBatch) Delete(k []byte) error {
	b.mu.Lock()
	defer b.mu.Unlock()
	b.ops = append(b.ops, op{del: true, k: append([]byte(nil), k...)})
	return nil
}
func (b *memBatch) Commit(bool) error {
	b.mu.Lock()
	defer b.mu.Unlock()
	for _, o := range b.ops {
		if o.del {
			b.db.Delete(o.k)
		} else {
			b.db.Put(o.k, o.v)
		}
	}
	b.ops = nil
	return nil
}

func key(i int) []byte { h := sha256.Sum256([]byte(strconv.Itoa(i))); return h[:] }

func commit(t *testing.T, tr *wmpt.WeightedMerkleTrie, level int) {
	t.Helper()
	b, err := tr.Commit(level)
	if err != nil {
		t.Fatal(err)
	}
	if err := b.Commit(true); err != nil {
		t.Fatal(err)
	}
}
