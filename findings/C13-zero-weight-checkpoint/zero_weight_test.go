package demo

import (
	"bytes"
	"crypto/sha256"
	"testing"

	"github.com/0chain/common/core/util/wmpt"
)

func zkey(i int) []byte { h := sha256.Sum256([]byte{byte(i), 0x5a}); return h[:] }

// A checkpoint whose entries all have weight 0 (registered, no stake yet) is a
// non-empty trie of total weight 0. Rolling back to it must give its root back.
func TestRollbackToZeroWeightCheckpoint(t *testing.T) {
	for _, viaTrie := range []bool{false, true} {
		db := newMemDB()
		tr := wmpt.New(nil, db)
		for i := 0; i < 3; i++ {
			if err := tr.Update(zkey(i), []byte{byte('a' + i)}, 0); err != nil {
				t.Fatal(err)
			}
		}
		b, err := tr.Commit(0)
		if err != nil {
			t.Fatal(err)
		}
		if err := b.Commit(true); err != nil {
			t.Fatal(err)
		}
		cpRoot := append([]byte(nil), tr.Root()...)
		cpNode := tr.CopyRoot(0)
		tr.SaveRoot()
		if err := tr.Update(zkey(7), []byte("later"), 5); err != nil {
			t.Fatal(err)
		}
		b, err = tr.Commit(0)
		if err != nil {
			t.Fatal(err)
		}
		if err := b.Commit(true); err != nil {
			t.Fatal(err)
		}
		if viaTrie {
			tr.RollbackTrie(cpNode)
		} else {
			tr.Rollback()
		}
		if !bytes.Equal(tr.Root(), cpRoot) {
			t.Errorf("viaRollbackTrie=%v: root after rollback %x, checkpoint %x (weight %d)", viaTrie, tr.Root(), cpRoot, tr.Weight())
		}
	}
}
