package util
import "testing"
// deleting an absent path that ends exactly where a leaf with a non-empty remaining path sits
func TestDeleteEndsAtLeafWithRemainder(t *testing.T) {
	m := newT(); ins(t, m, "10aa", "11bb")
	before := content(m); root := string(m.GetRoot())
	_, err := m.Delete(Path("10"))
	if err != ErrValueNotPresent { t.Errorf("Delete(10): err = %v, want ErrValueNotPresent", err) }
	if content(m) != before || string(m.GetRoot()) != root { t.Errorf("content changed: %s -> %s", before, content(m)) }
	m2 := newT(); ins(t, m2, "0010")
	_, err = m2.Delete(Path(""))
	if err != ErrValueNotPresent { t.Errorf("Delete(\"\") on {0010}: err = %v, want ErrValueNotPresent", err) }
	if v, e := m2.GetNodeValueRaw(Path("0010")); e != nil || string(v) != "v0010" { t.Errorf("0010 lost: %q %v", v, e) }
}
