package util
import (
	"context"
	"fmt"
	"math/rand"
	"sort"
	"testing"
	"github.com/0chain/common/core/statecache"
)
func newT2() *MerklePatriciaTrie { return NewMerklePatriciaTrie(NewMemoryNodeDB(), 1, nil, statecache.NewEmpty()) }
func contentOf(m *MerklePatriciaTrie) map[string]string {
	out := map[string]string{}
	m.Iterate(context.Background(), func(ctx context.Context, path Path, key Key, node Node) error {
		if vn, ok := node.(*ValueNode); ok { out[string(path)] = string(vn.GetValueBytes()) }
		return nil
	}, NodeTypeValueNode)
	return out
}
// random histories: the root must equal the root of a trie built from the final content alone,
// and lookups/iteration must agree with a map model
func TestCanonicalRandom(t *testing.T) {
	universe := []string{"", "12", "1234", "1256", "123456", "12ab", "12abcd", "ab", "abcd", "abce", "ff", "ff00", "ff0011", "10aa", "11bb", "1000", "11ab", "11ac", "11"}
	for seed := int64(1); seed <= 400; seed++ {
		rng := rand.New(rand.NewSource(seed))
		m := newT2(); model := map[string]string{}
		for step := 0; step < 40; step++ {
			k := universe[rng.Intn(len(universe))]
			if rng.Intn(3) == 0 {
				_, err := m.Delete(Path(k))
				if _, had := model[k]; had { if err != nil { t.Fatalf("seed %d step %d: delete %q present: %v", seed, step, k, err) }; delete(model, k) } else if err != ErrValueNotPresent { t.Fatalf("seed %d step %d: delete absent %q: err=%v", seed, step, k, err) }
			} else {
				v := fmt.Sprintf("v%d:%d", seed, step)
				if _, err := m.Insert(Path(k), &tv{v}); err != nil { t.Fatalf("seed %d: insert %q: %v", seed, k, err) }
				model[k] = v
			}
			got := contentOf(m)
			if fmt.Sprint(got) != fmt.Sprint(model) { t.Fatalf("seed %d step %d: content %v, model %v", seed, step, got, model) }
		}
		ref := newT2()
		var keys []string
		for k := range model { keys = append(keys, k) }
		sort.Strings(keys)
		for _, k := range keys { ref.Insert(Path(k), &tv{model[k]}) }
		if string(ref.GetRoot()) != string(m.GetRoot()) { t.Fatalf("seed %d: root depends on history (content %v)", seed, model) }
	}
}
