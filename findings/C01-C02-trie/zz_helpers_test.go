package util
import (
	"github.com/0chain/common/core/logging"
	"go.uber.org/zap"
)
func init() { logging.Logger = zap.NewNop() }
type tv struct{ s string }
func (v *tv) MarshalMsg([]byte) ([]byte, error) { return []byte(v.s), nil }
func (v *tv) UnmarshalMsg(b []byte) ([]byte, error) { v.s = string(b); return nil, nil }
