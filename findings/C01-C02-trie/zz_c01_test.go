package util
import (
	"context"
	"fmt"
	"testing"
	"github.com/0chain/common/core/statecache"
)
func newT() *MerklePatriciaTrie { return NewMerklePatriciaTrie(NewMemoryNodeDB(), 1, nil, statecache.NewEmpty()) }
func ins(t *testing.T, m *MerklePatriciaTrie, ks ...string) { for _, k := range ks { if _, err := m.Insert(Path(k), &tv{"v" + k}); err != nil { t.Fatalf("insert %s: %v", k, err) } } }
func content(m *MerklePatriciaTrie) string {
	out := map[string]string{}
	m.Iterate(context.Background(), func(ctx context.Context, path Path, key Key, node Node) error {
		if vn, ok := node.(*ValueNode); ok { out[string(path)] = string(vn.GetValueBytes()) }
		return nil
	}, NodeTypeValueNode)
	return fmt.Sprint(out)
}
// (a) deleting an absent path that ends inside an extension
func TestDeleteInsideExtension(t *testing.T) {
	defer func() { if e := recover(); e != nil { t.Fatalf("panic: %v", e) } }()
	m := newT(); ins(t, m, "12abc0", "12abc1", "1f")
	before := content(m)
	_, err := m.Delete(Path("12"))
	if err != ErrValueNotPresent { t.Fatalf("err = %v, want ErrValueNotPresent", err) }
	if content(m) != before { t.Fatal("content changed") }
}
// (b) deleting the last entry under an extension whose branch lost its value earlier
func TestDeleteChildVanishes(t *testing.T) {
	defer func() { if e := recover(); e != nil { t.Fatalf("panic: %v", e) } }()
	m := newT(); ins(t, m, "1234", "12")
	if _, err := m.Delete(Path("12")); err != nil { t.Fatal(err) }
	if _, err := m.Delete(Path("1234")); err != nil { t.Fatal(err) }
	if c := content(m); c != "map[]" { t.Fatalf("content %s", c) }
}
// (c) deleting at a branch without a value
func TestDeleteBranchWithoutValue(t *testing.T) {
	m := newT(); ins(t, m, "1234", "1256")
	root := string(m.GetRoot())
	_, err := m.Delete(Path("12"))
	if err != ErrValueNotPresent { t.Fatalf("err = %v, want ErrValueNotPresent", err) }
	if string(m.GetRoot()) != root { t.Fatal("root changed") }
}
// (d) inserting a value at the start of a one-character extension
func TestInsertAtShortExtension(t *testing.T) {
	m := newT(); ins(t, m, "10xx"[:2]+"00", "11ab", "11ac")
	ins(t, m, "11")
	for _, k := range []string{"1000", "11ab", "11ac", "11"} {
		v, err := m.GetNodeValueRaw(Path(k))
		if err != nil || string(v) != "v"+k { t.Errorf("lookup %s -> %q, %v", k, v, err) }
	}
}
// finding 8: root depends on history
func TestRootHistoryIndependent(t *testing.T) {
	a := newT(); ins(t, a, "1234")
	b := newT(); ins(t, b, "1234", "12"); if _, err := b.Delete(Path("12")); err != nil { t.Fatal(err) }
	if string(a.GetRoot()) != string(b.GetRoot()) { t.Fatalf("roots differ for equal content %s / %s", content(a), content(b)) }
}
