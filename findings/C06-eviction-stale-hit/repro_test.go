package rep

import (
	"fmt"
	"testing"

	"github.com/0chain/common/core/logging"
	"github.com/0chain/common/core/statecache"
	"go.uber.org/zap"
)

// A reader that keeps looking at an old block keeps that block's entry "recently
// used" in the key's bounded versions map, while newer entries are evicted. A lookup
// at a block whose own write was evicted then walks back past it and returns the
// older value as a hit.
func TestStaleHitAfterEviction(t *testing.T) {
	logging.Logger = zap.NewNop()
	sc := statecache.NewStateCache()
	prev := ""
	for i := 0; i <= 450; i++ {
		h := fmt.Sprintf("b%d", i)
		bc := statecache.NewBlockCache(sc, statecache.Block{Round: int64(i), Hash: h, PrevHash: prev})
		bc.Set("k", statecache.String(fmt.Sprintf("v%d", i)))
		bc.Commit()
		prev = h
		if i >= 100 {
			if v, ok := sc.Get("k", "b100"); !ok || v.(statecache.String) != "v100" {
				t.Fatalf("reader at b100 after %d: %v %v", i, v, ok)
			}
		}
	}
	v, ok := sc.Get("k", "b150")
	if ok && v.(statecache.String) != "v150" {
		t.Fatalf("lookup at b150 is a HIT with %v: the value written at b150 is v150 (a miss would be acceptable)", v)
	}
	t.Logf("b150: %v %v", v, ok)
}
