package rep3
import (
	"math"
	"testing"
	"github.com/0chain/common/core/currency"
)
func TestMultWrapToZero(t *testing.T) {
	v, err := currency.MultCoin(1<<32, 1<<32)
	if err == nil { t.Fatalf("2^32*2^32 accepted, result %d", v) }
	v, err = currency.MultCoin(1<<63, 2)
	if err == nil { t.Fatalf("2^63*2 accepted, result %d", v) }
	if v, err := currency.MultCoin(0, 5); err != nil || v != 0 { t.Fatal(v, err) }
	if v, err := currency.MultCoin(5, 0); err != nil || v != 0 { t.Fatal(v, err) }
	if v, err := currency.MultCoin(3, 5); err != nil || v != 15 { t.Fatal(v, err) }
}
func TestDistributeZero(t *testing.T) {
	defer func() { if e := recover(); e != nil { t.Fatalf("panic: %v", e) } }()
	_, _, err := currency.DistributeCoin(5, 0)
	if err == nil { t.Fatal("no error for zero divisor") }
}
func TestFloatToCoin(t *testing.T) {
	for _, f := range []float64{math.NaN(), math.Inf(1), 1e30, 18446744073709551616.0} {
		if v, err := currency.Float64ToCoin(f); err == nil { t.Errorf("Float64ToCoin(%v) = %d, nil", f, v) }
		if v, err := currency.MultFloat64(1, f); err == nil { t.Errorf("MultFloat64(1,%v) = %d, nil", f, v) }
	}
	if v, err := currency.Float64ToCoin(18446744073709549568.0); err != nil || v != 18446744073709549568 { t.Errorf("largest float below 2^64: %d %v", v, err) }
	if v, err := currency.Float64ToCoin(2.9); err != nil || v != 2 { t.Errorf("%d %v", v, err) }
}
func TestParseNaN(t *testing.T) {
	for _, f := range []float64{math.NaN(), math.Inf(1), math.Inf(-1)} {
		func() {
			defer func() { if e := recover(); e != nil { t.Errorf("ParseZCN(%v) panic: %v", f, e) } }()
			if v, err := currency.ParseZCN(f); err == nil { t.Errorf("ParseZCN(%v) = %d, nil", f, v) }
		}()
	}
}
