package rep4
import (
	"fmt"
	"sync"
	"testing"
	"github.com/0chain/common/core/logging"
	"go.uber.org/zap"
	"go.uber.org/zap/zapcore"
)
func newLogger() (*logging.MemLogger, *zap.Logger) {
	ml := logging.NewMemLogger(zapcore.NewJSONEncoder(zap.NewProductionEncoderConfig()), zapcore.DebugLevel)
	return ml, zap.New(ml.GetCore())
}
// a logger derived before some writes must append after them, not overwrite the oldest entries
func TestDerivedLoggerAppends(t *testing.T) {
	ml, root := newLogger()
	derived := root.With(zap.String("k", "v"))
	for i := 1; i <= 5; i++ { root.Info(fmt.Sprintf("root-%d", i)) }
	derived.Info("derived-6")
	logs := ml.GetLogs()
	var got []string
	for _, e := range logs { got = append(got, e.Message) }
	want := []string{"derived-6", "root-5", "root-4", "root-3", "root-2", "root-1"}
	if fmt.Sprint(got) != fmt.Sprint(want) { t.Fatalf("got %v want %v", got, want) }
}
// entries handed out by GetLogs must not change when the buffer wraps
func TestSnapshotStable(t *testing.T) {
	ml, root := newLogger()
	root.Info("first")
	snap := ml.GetLogs()
	for i := 0; i < logging.BufferSize; i++ { root.Info(fmt.Sprintf("later-%d", i)) }
	if snap[0].Message != "first" { t.Fatalf("snapshot entry changed to %q", snap[0].Message) }
}
// readers and writers from several goroutines
func TestRaceReadWrite(t *testing.T) {
	ml, root := newLogger()
	derived := root.With(zap.Int("g", 1))
	var wg sync.WaitGroup
	wg.Add(3)
	go func() { defer wg.Done(); for i := 0; i < 3000; i++ { root.Info("a") } }()
	go func() { defer wg.Done(); for i := 0; i < 3000; i++ { derived.Info("b") } }()
	go func() { defer wg.Done(); for i := 0; i < 200; i++ { for _, e := range ml.GetLogs() { _ = e.Message } } }()
	wg.Wait()
}
