package util

// Witness for the defect repaired by the fix "merging a child's changes re-stamped the nodes ...":
// run in the scratch copy of core/util (tools/mkscratch_util.sh) of the tree BEFORE that commit
// it fails with "parent cannot read the content it merged: node not found"; after it, it passes.

import (
	"context"
	"fmt"
	"testing"

	"github.com/0chain/common/core/logging"
	"github.com/0chain/common/core/statecache"
	"go.uber.org/zap"
)

func init() { logging.Logger = zap.NewNop() }

type tvF struct{ s string }

func (t *tvF) MarshalMsg(b []byte) ([]byte, error)   { return append(b, []byte(t.s)...), nil }
func (t *tvF) UnmarshalMsg(b []byte) ([]byte, error) { t.s = string(b); return nil, nil }

func TestForeignThenParentMerge(t *testing.T) {
	ddb := NewMemoryNodeDB()
	donor := NewMerklePatriciaTrie(ddb, 5, nil, statecache.NewEmpty())
	for i := 0; i < 6; i++ {
		if _, err := donor.Insert(Path(fmt.Sprintf("a%dbc", i)), &tvF{fmt.Sprintf("v%d", i)}); err != nil {
			t.Fatal(err)
		}
	}
	root := donor.GetRoot()
	pdb := NewMemoryNodeDB()
	parent := NewMerklePatriciaTrie(pdb, 7, nil, statecache.NewEmpty())
	ldb := NewLevelNodeDB(NewMemoryNodeDB(), pdb, false)
	child := NewMerklePatriciaTrie(ldb, 7, parent.GetRoot(), statecache.NewEmpty())
	if err := child.MergeDB(ddb, root, nil); err != nil {
		t.Fatal(err)
	}
	if _, err := child.GetNodeValueRaw(Path("a3bc")); err != nil {
		t.Fatalf("child cannot read synced content: %v", err)
	}
	if err := parent.MergeMPTChanges(child); err != nil {
		t.Fatalf("merge: %v", err)
	}
	if _, err := parent.GetNodeValueRaw(Path("a3bc")); err != nil {
		t.Fatalf("parent cannot read the content it merged: %v", err)
	}
	d2 := NewMerklePatriciaTrie(ddb, 5, root, statecache.NewEmpty())
	if _, err := d2.GetNodeValueRaw(Path("a3bc")); err != nil {
		t.Fatalf("donor damaged: %v", err)
	}
	n := 0
	_ = ddb.Iterate(context.TODO(), func(ctx context.Context, key Key, node Node) error {
		if string(key) != string(node.GetHashBytes()) {
			n++
		}
		return nil
	})
	if n > 0 {
		t.Fatalf("%d donor nodes no longer sit under their own hash", n)
	}
}
