package probe

// Witness for the defect repaired by the "fix:" commit recorded in /verif/known_findings.json
// (C06 DOM-ownfirst, delegate-hash): external module with `replace github.com/0chain/common => /repo`,
// `replace github.com/tinylib/msgp => github.com/0chain/msgp v1.1.62` and a copy of /repo/go.sum; go test .
// Pre-fix output: "lookup at b2 returned v1, b2 wrote v2" and "transaction on b2 sees v1, b2 wrote v2".

import (
	"testing"

	"github.com/0chain/common/core/logging"
	"go.uber.org/zap"

	"github.com/0chain/common/core/statecache"
)

func TestOwnWriteAfterCommit(t *testing.T) {
	logging.Logger = zap.NewNop()
	sc := statecache.NewStateCache()
	b1 := statecache.NewBlockCache(sc, statecache.Block{Hash: "b1"})
	b1.Set("k", statecache.String("v1"))
	b1.Commit()
	b2 := statecache.NewBlockCache(sc, statecache.Block{PrevHash: "b1", Hash: "b2"})
	b2.Set("k", statecache.String("v2"))
	if v, ok := b2.Get("k"); !ok || v.(statecache.String) != "v2" {
		t.Fatalf("before commit: %v %v", v, ok)
	}
	b2.Commit()
	v, ok := b2.Get("k")
	t.Logf("after commit, lookup through the block's own cache: %v %v", v, ok)
	if ok && v.(statecache.String) != "v2" {
		t.Errorf("lookup at b2 returned %v, b2 wrote v2", v)
	}
	tc := statecache.NewTransactionCache(b2)
	v, ok = tc.Get("k")
	if ok && v.(statecache.String) != "v2" {
		t.Errorf("transaction on b2 sees %v, b2 wrote v2", v)
	}
	q := statecache.NewQueryBlockCache(sc, "b2")
	v, ok = q.Get("k")
	t.Logf("query cache at b2: %v %v", v, ok)
}
