package rep5
import (
	"fmt"
	"sync"
	"sync/atomic"
	"testing"
	"github.com/0chain/common/core/logging"
	"github.com/0chain/common/core/statecache"
	"go.uber.org/zap"
)
func init() { logging.Logger = zap.NewNop() }
// free-running readers at block B while B commits: after the commit returned every key written by B
// must be found with B's value at B (unless evicted; capacities are far above the sizes used here)
func TestLookupsDuringCommitKeepCommittedValues(t *testing.T) {
	const keys = 2000
	bad := 0
	for run := 0; run < 150 && bad == 0; run++ {
		sc := statecache.NewStateCache()
		a := statecache.NewBlockCache(sc, statecache.Block{Round: 1, Hash: "A"})
		for i := 0; i < keys; i++ { a.Set(fmt.Sprint("k", i), statecache.String("A")) }
		a.Commit()
		b := statecache.NewBlockCache(sc, statecache.Block{Round: 2, Hash: "B", PrevHash: "A"})
		for i := 0; i < keys; i++ { b.Set(fmt.Sprint("k", i), statecache.String("B")) }
		var stop int32
		var wg sync.WaitGroup
		var wrongHit int64
		for g := 0; g < 8; g++ {
			wg.Add(1)
			go func(g int) {
				defer wg.Done()
				for i := g; atomic.LoadInt32(&stop) == 0; i = (i + 7) % keys {
					if v, ok := sc.Get(fmt.Sprint("k", i), "B"); ok && v.(statecache.String) != "B" { atomic.AddInt64(&wrongHit, 1) }
				}
			}(g)
		}
		b.Commit()
		atomic.StoreInt32(&stop, 1)
		wg.Wait()
		for i := 0; i < keys; i++ {
			v, ok := sc.Get(fmt.Sprint("k", i), "B")
			if !ok || v.(statecache.String) != "B" { bad++; t.Errorf("run %d: after commit(B) returned, Get(k%d, B) = %v, %v; want B (wrong hits during the commit: %d)", run, i, v, ok, wrongHit); break }
		}
	}
}
