package rep2
import (
	"sync"
	"testing"
	"github.com/0chain/common/core/statecache"
	"github.com/0chain/common/core/logging"
	"go.uber.org/zap"
)
func init() { logging.Logger = zap.NewNop() }

// a trie lookup (AddHit/AddMiss) running while the transaction cache commits
func TestRaceTxnCounters(t *testing.T) {
	sc := statecache.NewStateCache()
	bc, tc := statecache.NewBlockTxnCaches(sc, statecache.Block{Round: 1, Hash: "B"})
	_ = bc
	var wg sync.WaitGroup
	wg.Add(2)
	go func() { defer wg.Done(); for i := 0; i < 1000; i++ { tc.AddHit(); tc.AddMiss() } }()
	go func() { defer wg.Done(); for i := 0; i < 1000; i++ { tc.Commit() } }()
	wg.Wait()
}
// a transaction committing into the block cache while the block commits
func TestRaceBlockCounters(t *testing.T) {
	sc := statecache.NewStateCache()
	var wg sync.WaitGroup
	bc := statecache.NewBlockCache(sc, statecache.Block{Round: 1, Hash: "B"})
	tc := statecache.NewTransactionCache(bc)
	wg.Add(2)
	go func() { defer wg.Done(); for i := 0; i < 1000; i++ { tc.AddHit(); tc.Commit() } }()
	go func() { defer wg.Done(); bc.Commit() }()
	wg.Wait()
}
// the generator publishing the block hash while the block commits
func TestRaceBlockHash(t *testing.T) {
	sc := statecache.NewStateCache()
	var wg sync.WaitGroup
	bc := statecache.NewBlockCache(sc, statecache.Block{Round: 1, Hash: ""})
	wg.Add(2)
	go func() { defer wg.Done(); bc.SetBlockHash("H") }()
	go func() { defer wg.Done(); bc.Commit() }()
	wg.Wait()
}
