package sw

import (
	"testing"

	"github.com/0chain/common/core/util/wmpt"
)

func keyB(i int) []byte { k := make([]byte, 32); k[0] = byte(i); k[1] = byte(i >> 8); k[31] = byte(i * 7); return k }


// A commit round whose net effect leaves the root hash unchanged (a value is
// changed and changed back) must not schedule the live root for collection.
func TestUnchangedRootNotCollected(t *testing.T) {
	for level := 0; level <= 2; level++ {
		db := newMem()
		tr := wmpt.New(nil, db)
		for i := 1; i <= 6; i++ {
			if err := tr.Update(keyB(i*37), val(i), 5); err != nil {
				t.Fatal(err)
			}
		}
		b, _ := tr.Commit(level)
		b.Commit(true)
		root := append([]byte{}, tr.Root()...)
		if err := tr.Update(keyB(2*37), []byte("tmp"), 5); err != nil {
			t.Fatal(err)
		}
		if err := tr.Update(keyB(2*37), val(2), 5); err != nil {
			t.Fatal(err)
		}
		b, err := tr.Commit(level)
		if err != nil {
			t.Fatal(err)
		}
		b.Commit(true)
		if string(tr.Root()) != string(root) {
			t.Fatalf("root changed")
		}
		tr.DeleteNodes()
		tr.DeleteNodes()
		if err := resolvable(t, db, root, 30); err != nil {
			t.Fatalf("level %d: value changed and changed back, commit, 2 GC passes: %v", level, err)
		}
	}
}
