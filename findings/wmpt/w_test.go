package sw
import (
	"fmt"
	"testing"
	"github.com/0chain/common/core/util/wmpt"
)
func key(i int) []byte { k := make([]byte, 32); k[0] = byte(i >> 8); k[1] = byte(i); k[31] = byte(i * 7); return k }
func val(i int) []byte { return []byte(fmt.Sprintf("value-%d", i)) }
// finding 4: updating a key whose value node was collapsed to storage double-counts the weight
func TestUpdateCollapsedValue(t *testing.T) {
	for level := 0; level <= 3; level++ {
		db := newMem()
		tr := wmpt.New(nil, db)
		for i := 1; i <= 4; i++ { if err := tr.Update(key(i), val(i), 5); err != nil { t.Fatal(err) } }
		b, err := tr.Commit(level); if err != nil { t.Fatal(err) }; b.Commit(true)
		if tr.Weight() != 20 { t.Fatalf("level %d: weight %d", level, tr.Weight()) }
		if err := tr.Update(key(2), []byte("other"), 7); err != nil { t.Fatalf("level %d: %v", level, err) }
		if tr.Weight() != 22 { t.Errorf("collapse level %d: total weight %d after changing one weight 5 -> 7, want 22", level, tr.Weight()) }
	}
}
// finding 6: RollbackTrie keeps the pending delete list
func TestRollbackTrieKeepsCheckpoint(t *testing.T) {
	db := newMem()
	tr := wmpt.New(nil, db)
	for i := 1; i <= 6; i++ { tr.Update(key(i), val(i), 5) }
	b, _ := tr.Commit(0); b.Commit(true)
	cpRoot := append([]byte{}, tr.Root()...); cpWeight := tr.Weight()
	cp := wmpt.NewHashNode(cpRoot, cpWeight)
	tr.SaveRoot()
	// change and commit
	tr.Update(key(2), []byte("changed"), 9)
	tr.Update(key(3), nil, 0)
	b, _ = tr.Commit(0); b.Commit(true)
	tr.RollbackTrie(cp)
	if string(tr.Root()) != string(cpRoot) { t.Fatal("root not restored") }
	// two garbage collection passes
	if err := tr.DeleteNodes(); err != nil { t.Fatal(err) }
	if err := tr.DeleteNodes(); err != nil { t.Fatal(err) }
	// the checkpoint must still be fully resolvable
	tr2 := wmpt.New(wmpt.NewHashNode(cpRoot, cpWeight), db)
	for blk := uint64(1); blk <= cpWeight; blk++ {
		if _, _, err := tr2.GetBlockProof(blk); err != nil { t.Fatalf("checkpoint not resolvable after rollback + GC: block %d: %v", blk, err) }
	}
}
// finding 5: path export with more than 10 keys when the root is not a branch
func TestGetPathManyKeysNonBranchRoot(t *testing.T) {
	db := newMem()
	tr := wmpt.New(nil, db)
	// all keys share the first byte -> root is a short node
	var keys [][]byte
	for i := 1; i <= 12; i++ { k := make([]byte, 32); k[0] = 0xaa; k[1] = byte(i); keys = append(keys, k); tr.Update(k, val(i), 3) }
	b, _ := tr.Commit(1); b.Commit(true)
	data, err := tr.GetPath(keys); if err != nil { t.Fatal(err) }
	p := wmpt.New(nil, nil)
	if err := p.Deserialize(data); err != nil { t.Fatal(err) }
	if string(p.Root()) != string(tr.Root()) { t.Fatal("partial root differs") }
	// mirrored update on both
	if err := tr.Update(keys[3], []byte("zzz"), 8); err != nil { t.Fatal(err) }
	if err := p.Update(keys[3], []byte("zzz"), 8); err != nil { t.Fatalf("partial trie cannot apply the update of a requested key: %v", err) }
	if string(p.Root()) != string(tr.Root()) || p.Weight() != tr.Weight() { t.Fatalf("partial and full trie diverge") }
}
