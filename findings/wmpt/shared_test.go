package sw

import (
	"testing"

	"github.com/0chain/common/core/util/wmpt"
)



// Two keys hold byte-identical content (same value, same weight): their value
// nodes have the same hash and are one node in storage. Deleting one of the keys
// schedules that hash for collection although the other key still uses it.
func TestSharedValueNodeCollected(t *testing.T) {
	db := newMem()
	tr := wmpt.New(nil, db)
	for i := 1; i <= 6; i++ {
		v := val(i)
		if i == 2 || i == 5 {
			v = []byte("same content")
		}
		if err := tr.Update(key(i*37), v, 5); err != nil {
			t.Fatal(err)
		}
	}
	b, _ := tr.Commit(0)
	b.Commit(true)
	if err := tr.Update(key(2*37), nil, 0); err != nil { // delete one of the two keys
		t.Fatal(err)
	}
	b, _ = tr.Commit(0)
	b.Commit(true)
	root := append([]byte{}, tr.Root()...)
	tr.DeleteNodes()
	tr.DeleteNodes()
	if err := resolvable(t, db, root, 25); err != nil {
		t.Fatalf("two keys with identical content, one deleted, two GC passes: the other key's value is gone: %v", err)
	}
}
