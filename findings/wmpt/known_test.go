package sw
import (
	"encoding/binary"
	"testing"
	"github.com/0chain/common/core/util/wmpt"
	"github.com/fxamacker/cbor/v2"
)
func build(t *testing.T, db *memDB, n int, w uint64) *wmpt.WeightedMerkleTrie {
	tr := wmpt.New(nil, db)
	for i := 1; i <= n; i++ { if err := tr.Update(key(i*37), val(i), w); err != nil { t.Fatal(err) } }
	return tr
}
func resolvable(t *testing.T, db *memDB, root []byte, weight uint64) error {
	tr := wmpt.New(wmpt.NewHashNode(root, weight), db)
	for blk := uint64(1); blk <= weight; blk++ { if _, _, err := tr.GetBlockProof(blk); err != nil { return err } }
	return nil
}
// known finding C11/WHO-dirtyclear: reading the root hash before Commit makes Commit save nothing
func TestKnownRootThenCommit(t *testing.T) {
	db := newMem(); tr := build(t, db, 6, 5)
	root := append([]byte{}, tr.Root()...)
	b, err := tr.Commit(0); if err != nil { t.Fatal(err) }; b.Commit(true)
	if err := resolvable(t, db, root, 30); err != nil { t.Fatalf("Root(); Commit(): committed root not resolvable: %v (puts=%d)", err, db.puts) }
}
// known finding C11/AGREE-purge: delete + re-add identical content, then two GC passes
func TestKnownReaddThenGC(t *testing.T) {
	db := newMem(); tr := build(t, db, 6, 5)
	b, _ := tr.Commit(0); b.Commit(true)
	k := key(2 * 37)
	if err := tr.Update(k, nil, 0); err != nil { t.Fatal(err) }
	if err := tr.Update(k, val(2), 5); err != nil { t.Fatal(err) }
	b, _ = tr.Commit(0); b.Commit(true)
	root := append([]byte{}, tr.Root()...)
	tr.DeleteNodes(); tr.DeleteNodes()
	if err := resolvable(t, db, root, 30); err != nil { t.Fatalf("delete + re-add identical + 2 GC passes: live node lost: %v", err) }
}
// known finding C13/AGREE-created: a node re-saved with an unchanged hash is recorded as created; rollback deletes it
func TestKnownRollbackUnchangedRewrite(t *testing.T) {
	db := newMem(); tr := build(t, db, 6, 5)
	b, _ := tr.Commit(0); b.Commit(true)
	root := append([]byte{}, tr.Root()...)
	tr.SaveRoot()
	k := key(2 * 37)
	tr.Update(k, []byte("tmp"), 5)
	tr.Update(k, val(2), 5) // back to the checkpoint's content: same hashes, nodes dirty
	b, _ = tr.Commit(0); b.Commit(true)
	tr.Rollback()
	if err := resolvable(t, db, root, 30); err != nil { t.Fatalf("rollback after an unchanged re-write deleted checkpoint nodes: %v", err) }
}
// known finding C10/AGREE-bind: re-weighted proof verifies to the real root with another owner's value
func TestKnownForgedProof(t *testing.T) {
	db := newMem(); tr := build(t, db, 6, 5)
	b, _ := tr.Commit(0); b.Commit(true)
	root := append([]byte{}, tr.Root()...)
	_, honest1, err := tr.GetBlockProof(1); if err != nil { t.Fatal(err) }
	_, v1, err := wmpt.New(nil, nil).VerifyBlockProof(1, honest1); if err != nil { t.Fatal(err) }
	// try every other block's honest proof, re-weighted so that block 1 lands in its owner's child
	for blk := uint64(6); blk <= 30; blk += 5 {
		_, proof, err := tr.GetBlockProof(blk); if err != nil { t.Fatal(err) }
		var pt wmpt.PersistTrie
		if err := cbor.Unmarshal(proof, &pt); err != nil { t.Fatal(err) }
		// walk down the honest proof; at the first branch where earlier siblings carry weight, move it to the owner
		rem := blk
		done := false
		for pi := 0; pi < len(pt.Pairs) && !done; pi++ {
			var base wmpt.PersistNodeBase
			if err := cbor.Unmarshal(pt.Pairs[pi].Value, &base); err != nil || base.Branch == nil { continue }
			var cum uint64; owner := -1
			for i, c := range base.Branch.Children { if len(c) >= 40 { w := binary.BigEndian.Uint64(c[32:40]); if owner < 0 && rem <= cum+w { owner = i; break }; cum += w } }
			if owner < 0 { break }
			rem -= cum
			if cum == 0 { continue }
			for i, c := range base.Branch.Children { if len(c) >= 40 && i < owner { binary.BigEndian.PutUint64(c[32:40], 0) } }
			c := base.Branch.Children[owner]; binary.BigEndian.PutUint64(c[32:40], binary.BigEndian.Uint64(c[32:40])+cum)
			nb, _ := cbor.Marshal(&base); pt.Pairs[pi].Value = nb
			done = true
		}
		if !done { continue }
		forged, _ := cbor.Marshal(&pt)
		h, v, err := wmpt.New(nil, nil).VerifyBlockProof(1, forged)
		if err == nil && string(h) == string(root) && string(v) != string(v1) {
			t.Fatalf("forged proof accepted: block 1 is owned by %q but the re-weighted proof of block %d verifies to the trusted root with value %q", v1, blk, v)
		}
	}
}
