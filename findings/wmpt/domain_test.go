package sw
import (
	"encoding/binary"
	"testing"
	"github.com/0chain/common/core/util/wmpt"
	"github.com/fxamacker/cbor/v2"
)
// C10: node kinds are not domain separated: a value node whose bytes are the branch's child hashes has the branch's hash
func TestKnownKindConfusion(t *testing.T) {
	db := newMem(); tr := wmpt.New(nil, db)
	for i := 1; i <= 6; i++ { k := make([]byte, 32); k[0] = byte(i * 16); tr.Update(k, val(i), 5) } // six different first nibbles: root is a branch
	b, _ := tr.Commit(0); b.Commit(true)
	root := append([]byte{}, tr.Root()...)
	_, proof, err := tr.GetBlockProof(1); if err != nil { t.Fatal(err) }
	_, honest, err := wmpt.New(nil, nil).VerifyBlockProof(1, proof); if err != nil { t.Fatal(err) }
	var pt wmpt.PersistTrie
	if err := cbor.Unmarshal(proof, &pt); err != nil { t.Fatal(err) }
	var base wmpt.PersistNodeBase
	if err := cbor.Unmarshal(pt.Pairs[0].Value, &base); err != nil || base.Branch == nil { t.Fatal("root is not a branch") }
	// pre-image of the branch: BE(total weight) || 16 child hashes (empty-state hash for absent children)
	empty := wmpt.New(nil, nil).Root() // hash of the empty node
	var blob []byte
	var total uint64
	for _, c := range base.Branch.Children {
		if len(c) >= 40 { blob = append(blob, c[:32]...); total += binary.BigEndian.Uint64(c[32:40]) } else { blob = append(blob, empty...) }
	}
	fake, _ := cbor.Marshal(&wmpt.PersistNodeBase{Value: &wmpt.PersistNodeValue{Value: blob, Weight: total, Hash: base.Branch.Hash}})
	forged, _ := cbor.Marshal(&wmpt.PersistTrie{Pairs: []*wmpt.PersistTriePair{{Value: fake}}})
	h, v, err := wmpt.New(nil, nil).VerifyBlockProof(1, forged)
	if err == nil && string(h) == string(root) && string(v) != string(honest) {
		t.Fatalf("forged proof accepted: a one-element proof presenting the root branch as a value node verifies to the trusted root and returns a %d-byte 'value' instead of %q", len(v), honest)
	}
}
