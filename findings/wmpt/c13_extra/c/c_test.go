package scratchw

import (
	"testing"

	"github.com/0chain/common/core/util/wmpt"
)

// (c) the rolled-back commit adds a new key whose value and weight are
// identical to those of a checkpoint entry.
func TestC13SameValueUnderTwoKeys(t *testing.T) {
	for _, entry := range []string{"Rollback", "RollbackTrie"} {
		t.Run(entry, func(t *testing.T) {
			db := newMemDB()
			tr := wmpt.New(nil, db)
			k1, k2 := k(0x10), k(0x20)
			k2[31] = 0x01 // different tail, so that only the value node (not the leaf short node) is shared

			tr.Update(k1, []byte("same"), 5)
			mustCommit(t, tr, 0)

			tr.SaveRoot() // checkpoint: {k1 -> ("same", 5)}
			cpHash, cpWeight, cpStore := append([]byte(nil), tr.Root()...), tr.Weight(), db.keys()

			tr.Update(k2, []byte("same"), 5) // new key, identical value and weight
			mustCommit(t, tr, 0)

			if entry == "Rollback" {
				tr.Rollback()
			} else {
				tr.RollbackTrie(wmpt.NewHashNode(cpHash, cpWeight))
			}
			checkC13(t, tr, db, cpHash, cpWeight, cpStore, [][]byte{k1})
		})
	}
}
