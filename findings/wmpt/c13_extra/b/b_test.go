package scratchw

import (
	"testing"

	"github.com/0chain/common/core/util/wmpt"
)

// (b) the rolled-back commit creates a branch (routing) node exactly at the
// collapse level.
func TestC13RoutingNodeAtCollapseLevel(t *testing.T) {
	for _, entry := range []string{"Rollback", "RollbackTrie"} {
		t.Run(entry, func(t *testing.T) {
			db := newMemDB()
			tr := wmpt.New(nil, db)
			k1, k2, k3 := k(0x10), k(0x20), k(0x11) // k1 and k3 share the first nibble

			tr.Update(k1, []byte("one"), 1)
			tr.Update(k2, []byte("two"), 2)
			mustCommit(t, tr, 1)

			tr.SaveRoot() // checkpoint: {k1, k2}, root is a branch at level 0
			cpHash, cpWeight, cpStore := append([]byte(nil), tr.Root()...), tr.Weight(), db.keys()

			tr.Update(k3, []byte("three"), 3) // root.Children[1] becomes a branch at level 1
			mustCommit(t, tr, 1)              // collapse level 1

			if entry == "Rollback" {
				tr.Rollback()
			} else {
				tr.RollbackTrie(wmpt.NewHashNode(cpHash, cpWeight))
			}
			checkC13(t, tr, db, cpHash, cpWeight, cpStore, [][]byte{k1, k2})
		})
	}
}
