package scratchw

import (
	"bytes"
	"testing"

	"github.com/0chain/common/core/util/wmpt"
)

// k returns a 32-byte key whose first byte is b0 and all other bytes are zero.
func k(b0 byte) []byte { r := make([]byte, 32); r[0] = b0; return r }

func mustCommit(t *testing.T, tr *wmpt.WeightedMerkleTrie, level int) {
	t.Helper()
	b, err := tr.Commit(level)
	if err != nil {
		t.Fatal(err)
	}
	if err := b.Commit(true); err != nil {
		t.Fatal(err)
	}
}

// checkC13 checks root, weight, resolvability of every checkpoint entry by a
// fresh trie that knows only the checkpoint root, and absence of leftovers.
func checkC13(t *testing.T, tr *wmpt.WeightedMerkleTrie, db *memDB, cpHash []byte, cpWeight uint64, cpStore map[string]bool, cpKeys [][]byte) {
	t.Helper()
	if !bytes.Equal(tr.Root(), cpHash) || tr.Weight() != cpWeight {
		t.Errorf("root/weight not restored: %x/%d, want %x/%d", tr.Root(), tr.Weight(), cpHash, cpWeight)
	}
	if _, err := wmpt.New(wmpt.NewHashNode(cpHash, cpWeight), db).GetPath(cpKeys); err != nil {
		t.Errorf("checkpoint state not resolvable from storage: %v", err)
	}
	for h := range db.keys() {
		if !cpStore[h] {
			t.Errorf("node %x written by the rolled-back commit is still in storage", h)
		}
	}
}
