package scratchw

import (
	"testing"

	"github.com/0chain/common/core/util/wmpt"
)

// (a) a key is added and deleted again inside the batch that gets rolled back.
func TestC13AddThenDeleteInOneBatch(t *testing.T) {
	for _, entry := range []string{"Rollback", "RollbackTrie"} {
		t.Run(entry, func(t *testing.T) {
			db := newMemDB()
			tr := wmpt.New(nil, db)
			k1, k2 := k(0x10), k(0x20)

			tr.Update(k1, []byte("one"), 1)
			mustCommit(t, tr, 0)

			tr.SaveRoot() // checkpoint: {k1}
			cpHash, cpWeight, cpStore := append([]byte(nil), tr.Root()...), tr.Weight(), db.keys()

			tr.Update(k2, []byte("two"), 2) // add ...
			tr.Update(k2, nil, 0)           // ... and delete again
			mustCommit(t, tr, 0)

			if entry == "Rollback" {
				tr.Rollback()
			} else {
				tr.RollbackTrie(wmpt.NewHashNode(cpHash, cpWeight))
			}
			checkC13(t, tr, db, cpHash, cpWeight, cpStore, [][]byte{k1})
		})
	}
}
