module scratchw

go 1.21

require github.com/0chain/common v0.0.0

require (
	github.com/fxamacker/cbor/v2 v2.7.0 // indirect
	github.com/x448/float16 v0.8.4 // indirect
	golang.org/x/crypto v0.7.0 // indirect
	golang.org/x/sync v0.7.0 // indirect
)

replace github.com/0chain/common => /tmp/wt/C13

replace github.com/tinylib/msgp => github.com/0chain/msgp v1.1.62
