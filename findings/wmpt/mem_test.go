package sw
import (
	"errors"
	"sync"
	"github.com/0chain/common/core/util/storage"
)
type memDB struct { mu sync.Mutex; m map[string][]byte; puts, dels int }
func newMem() *memDB { return &memDB{m: map[string][]byte{}} }
func (d *memDB) Get(k []byte) ([]byte, error) { d.mu.Lock(); defer d.mu.Unlock(); v, ok := d.m[string(k)]; if !ok { return nil, errors.New("pebble: not found") }; return append([]byte{}, v...), nil }
func (d *memDB) Put(k, v []byte) error { d.mu.Lock(); defer d.mu.Unlock(); d.m[string(k)] = append([]byte{}, v...); d.puts++; return nil }
func (d *memDB) Delete(k []byte) error { d.mu.Lock(); defer d.mu.Unlock(); delete(d.m, string(k)); d.dels++; return nil }
func (d *memDB) Close() {}
func (d *memDB) NewBatch() storage.Batcher { return &memBatch{db: d} }
type op struct{ del bool; k, v []byte }
type memBatch struct { mu sync.Mutex; db *memDB; ops []op }
func (b *memBatch) Put(k, v []byte) error { b.mu.Lock(); defer b.mu.Unlock(); b.ops = append(b.ops, op{false, append([]byte{}, k...), append([]byte{}, v...)}); return nil }
func (b *memBatch) Delete(k []byte) error { b.mu.Lock(); defer b.mu.Unlock(); b.ops = append(b.ops, op{true, append([]byte{}, k...), nil}); return nil }
func (b *memBatch) Commit(bool) error { for _, o := range b.ops { if o.del { b.db.Delete(o.k) } else { b.db.Put(o.k, o.v) } }; b.ops = nil; return nil }
