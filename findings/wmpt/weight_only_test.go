package sw

import (
	"testing"

	"github.com/0chain/common/core/util/wmpt"
)

// An update that changes only the weight of a key (same value bytes) must change
// the key's weight: total weight = sum of the weights of the live keys.
func TestWeightOnlyUpdate(t *testing.T) {
	db := newMem()
	tr := wmpt.New(nil, db)
	k := make([]byte, 32)
	k[0] = 0x12
	k2 := make([]byte, 32)
	k2[0] = 0x77
	if err := tr.Update(k, []byte("v"), 5); err != nil {
		t.Fatal(err)
	}
	if err := tr.Update(k2, []byte("w"), 3); err != nil {
		t.Fatal(err)
	}
	if err := tr.Update(k, []byte("v"), 9); err != nil {
		t.Fatal(err)
	}
	if got := tr.Weight(); got != 12 {
		t.Fatalf("Update(k,v,5); Update(k2,w,3); Update(k,v,9): total weight %d, want 12", got)
	}
}
