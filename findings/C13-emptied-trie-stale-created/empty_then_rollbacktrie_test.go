package cleannote

import (
	"bytes"
	"testing"

	"github.com/0chain/common/core/util/wmpt"
)

// Clean tree: RollbackTrie after a batch that empties the trie, when SaveRoot was
// not called at the checkpoint, deletes the checkpoint's own nodes from storage.
func TestEmptyingBatchThenRollbackTrie(t *testing.T) {
	for _, n := range []int{1, 5} {
		db := newMemDB()
		tr := wmpt.New(nil, db)
		for i := 0; i < n; i++ {
			if err := tr.Update(key(i), []byte{'v', byte(i)}, uint64(i+1)); err != nil {
				t.Fatal(err)
			}
		}
		commit(t, tr, 1) // Commit(1) + batch.Commit(true): checkpoint state, created = its nodes
		// no SaveRoot here
		cp := tr.CopyRoot(1)
		snap := db.snapshot()
		root := append([]byte(nil), tr.Root()...)

		for i := 0; i < n; i++ {
			if err := tr.Update(key(i), nil, 0); err != nil { // delete every key
				t.Fatal(err)
			}
		}
		commit(t, tr, 1) // root is the empty node, not dirty: Commit returns early, created is NOT reset
		tr.RollbackTrie(cp)

		if !bytes.Equal(tr.Root(), root) {
			t.Errorf("n=%d: root not restored", n)
		}
		after := db.snapshot()
		need := map[string]bool{}
		reachable(t, snap, string(root), need)
		missing := 0
		for h := range need {
			if _, ok := after[h]; !ok {
				missing++
			}
		}
		if missing > 0 {
			t.Errorf("n=%d: %d of %d nodes of the checkpoint state were deleted from storage by RollbackTrie", n, missing, len(need))
		}
		if _, _, err := tr.GetBlockProof(1); err != nil {
			t.Errorf("n=%d: GetBlockProof(1) on the rolled-back trie: %v", n, err)
		}
	}
}
