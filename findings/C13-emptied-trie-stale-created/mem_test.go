package cleannote

import (
	"crypto/sha256"
	"errors"
	"strconv"
	"sync"
	"testing"

	"github.com/0chain/common/core/util/storage"
	"github.com/0chain/common/core/util/wmpt"
	"github.com/fxamacker/cbor/v2"
)

// in-memory storage.StorageAdapter; a batch is applied on Commit
type memDB struct {
	mu sync.Mutex
	m  map[string][]byte
}

func newMemDB() *memDB { return &memDB{m: map[string][]byte{}} }
func (d *memDB) Get(k []byte) ([]byte, error) {
	d.mu.Lock()
	defer d.mu.Unlock()
	v, ok := d.m[string(k)]
	if !ok {
		return nil, errors.New("pebble: not found")
	}
	return append([]byte(nil), v...), nil
}
func (d *memDB) Put(k, v []byte) error {
	d.mu.Lock()
	defer d.mu.Unlock()
	d.m[string(k)] = append([]byte(nil), v...)
	return nil
}
func (d *memDB) Delete(k []byte) error {
	d.mu.Lock()
	defer d.mu.Unlock()
	delete(d.m, string(k))
	return nil
}
func (d *memDB) Close()                    {}
func (d *memDB) NewBatch() storage.Batcher { return &memBatch{d: d} }
func (d *memDB) snapshot() map[string][]byte {
	d.mu.Lock()
	defer d.mu.Unlock()
	s := map[string][]byte{}
	for k, v := range d.m {
		s[k] = append([]byte(nil), v...)
	}
	return s
}

type op struct {
	del  bool
	k, v []byte
}
type memBatch struct {
	mu  sync.Mutex
	d   *memDB
	ops []op
}

func (b *memBatch) Put(k, v []byte) error {
	b.mu.Lock()
	defer b.mu.Unlock()
	b.ops = append(b.ops, op{k: append([]byte(nil), k...), v: append([]byte(nil), v...)})
	return nil
}
func (b *memBatch) Delete(k []byte) error {
	b.mu.Lock()
	defer b.mu.Unlock()
	b.ops = append(b.ops, op{del: true, k: append([]byte(nil), k...)})
	return nil
}
func (b *memBatch) Commit(bool) error {
	b.mu.Lock()
	defer b.mu.Unlock()
	for _, o := range b.ops {
		if o.del {
			b.d.Delete(o.k)
		} else {
			b.d.Put(o.k, o.v)
		}
	}
	b.ops = nil
	return nil
}

func key(i int) []byte { h := sha256.Sum256([]byte(strconv.Itoa(i))); return h[:] }

func commit(t *testing.T, tr *wmpt.WeightedMerkleTrie, lvl int) {
	t.Helper()
	b, err := tr.Commit(lvl)
	if err != nil {
		t.Fatal(err)
	}
	if err := b.Commit(true); err != nil {
		t.Fatal(err)
	}
}

var emptyHash = string(wmpt.New(nil, nil).Root())

// reachable marks every record reachable from hash in a storage snapshot
func reachable(t *testing.T, snap map[string][]byte, hash string, seen map[string]bool) {
	t.Helper()
	if hash == emptyHash || seen[hash] {
		return
	}
	data, ok := snap[hash]
	if !ok {
		t.Fatalf("snapshot of the checkpoint is itself incomplete: %x", hash)
	}
	seen[hash] = true
	var p wmpt.PersistNodeBase
	if err := cbor.Unmarshal(data, &p); err != nil {
		t.Fatal(err)
	}
	switch {
	case p.Branch != nil:
		for _, c := range p.Branch.Children {
			if len(c) >= 40 {
				reachable(t, snap, string(c[:32]), seen)
			}
		}
	case p.Short != nil:
		reachable(t, snap, string(p.Short.Value[:32]), seen)
	}
}
