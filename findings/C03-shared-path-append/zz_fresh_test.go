package util
import (
	"context"
	"testing"
	"github.com/0chain/common/core/statecache"
)
func TestAppendSharedPath(t *testing.T) {
	pdb, _ := NewPNodeDB("", "")
	// block state P over the persistent store
	pl := NewLevelNodeDB(NewMemoryNodeDB(), pdb, false)
	P := NewMerklePatriciaTrie(pl, 1, nil, statecache.NewEmpty())
	// child c1 inserts two keys sharing the prefix aabb and merges
	c1 := NewMerklePatriciaTrie(NewLevelNodeDB(NewMemoryNodeDB(), pl, false), 1, P.GetRoot(), statecache.NewEmpty())
	for _, k := range []string{"aabbcc11", "aabbdd22"} { if _, err := c1.Insert(Path(k), &tv{"v" + k}); err != nil { t.Fatal(err) } }
	if err := P.MergeMPTChanges(c1); err != nil { t.Fatal(err) }
	rootBefore := append([]byte{}, P.GetRoot()...)
	// sibling c2 deletes one key and is discarded
	c2 := NewMerklePatriciaTrie(NewLevelNodeDB(NewMemoryNodeDB(), pl, false), 1, P.GetRoot(), statecache.NewEmpty())
	if _, err := c2.Delete(Path("aabbdd22")); err != nil { t.Fatal(err) }
	// P is unchanged by contract; save it
	if string(P.GetRoot()) != string(rootBefore) { t.Fatal("root changed") }
	if err := P.SaveChanges(context.Background(), pdb, false); err != nil { t.Fatal(err) }
	// reopen on the persistent store alone
	R := NewMerklePatriciaTrie(pdb, 1, rootBefore, statecache.NewEmpty())
	for _, k := range []string{"aabbcc11", "aabbdd22"} {
		v, err := R.GetNodeValueRaw(Path(k))
		if err != nil || string(v) != "v"+k { t.Errorf("reopened trie: %s -> %q, %v", k, v, err) }
	}
	// and the parent itself
	for _, k := range []string{"aabbcc11", "aabbdd22"} {
		v, err := P.GetNodeValueRaw(Path(k))
		if err != nil || string(v) != "v"+k { t.Errorf("parent after discarded sibling: %s -> %q, %v", k, v, err) }
	}
}
