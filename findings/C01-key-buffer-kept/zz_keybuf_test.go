package util

// Witness for the defect repaired by the "fix:" commit recorded in
// /verif/known_findings.json (C01 FRESH-pathbuf): Insert kept windows of the
// caller's key slice in the nodes it built (the value is copied, the key was
// not), so a caller that fills one buffer per key corrupts earlier entries.
//
// run: REPO=/repo /verif/tools/mkscratch_util.sh /tmp/sc && cp zz_keybuf_test.go /tmp/sc/util/ && cd /tmp/sc && go test -count=1 -run TestInsertDoesNotKeepTheCallersKey ./util/

import (
	"context"
	"testing"

	"github.com/0chain/common/core/logging"
	"github.com/0chain/common/core/statecache"
	"go.uber.org/zap"
)

func TestInsertDoesNotKeepTheCallersKey(t *testing.T) {
	logging.Logger = zap.NewNop()
	store := NewMemoryNodeDB()
	mpt := NewMerklePatriciaTrie(store, 1, nil, statecache.NewEmpty())
	keys := []string{"abcd11", "abcd22", "ab3344", "777777"}
	buf := make([]byte, 6) // one key buffer, refilled for every insert
	for _, k := range keys {
		copy(buf, k)
		if _, err := mpt.Insert(Path(buf), &SecureSerializableValue{Buffer: []byte("value of " + k)}); err != nil {
			t.Fatal(err)
		}
	}
	copy(buf, "ffffff")
	// a second handle on the same store and root (cold node cache), and the saved state
	for name, ndb := range map[string]NodeDB{"memory store": store, "saved": NewMemoryNodeDB()} {
		if name == "saved" {
			if err := mpt.SaveChanges(context.Background(), ndb, false); err != nil {
				t.Fatal(err)
			}
		}
		reader := NewMerklePatriciaTrie(ndb, 1, mpt.GetRoot(), statecache.NewEmpty())
		for _, k := range keys {
			v, err := reader.GetNodeValueRaw(Path(k))
			if err != nil || string(v) != "value of "+k {
				t.Errorf("%s: lookup of %s: %q, %v", name, k, v, err)
			}
		}
	}
}
