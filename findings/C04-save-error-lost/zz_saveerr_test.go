package util

// Witness for the defect repaired by the "fix:" commit recorded in
// /verif/known_findings.json (C04 ERR-select): SaveChanges reported success for
// a save that failed. The writer goroutine sends its error and then closes the
// done channel; when both have happened before the caller reaches its select,
// both cases are ready and select picks one at random.
//
// run: REPO=/repo /verif/tools/mkscratch_util.sh /tmp/sc && cp zz_saveerr_test.go /tmp/sc/util/ && cd /tmp/sc && go test -count=1 -run TestSaveErrorIsReported ./util/

import (
	"context"
	"errors"
	"testing"

	"github.com/0chain/common/core/logging"
	"github.com/0chain/common/core/statecache"
	"go.uber.org/zap"
)

type failingStore struct{ *MemoryNodeDB }

var errDiskFull = errors.New("disk full")

func (f *failingStore) MultiPutNode(keys []Key, nodes []Node) error { return errDiskFull }

func TestSaveErrorIsReported(t *testing.T) {
	logging.Logger = zap.NewNop()
	mpt := NewMerklePatriciaTrie(NewLevelNodeDB(NewMemoryNodeDB(), NewMemoryNodeDB(), false), 1, nil, statecache.NewEmpty())
	if _, err := mpt.Insert(Path("0123"), &SecureSerializableValue{Buffer: []byte("v")}); err != nil {
		t.Fatal(err)
	}
	lost := 0
	const runs = 30000
	for i := 0; i < runs; i++ {
		if err := mpt.SaveChanges(context.Background(), &failingStore{NewMemoryNodeDB()}, false); err == nil {
			lost++
		}
	}
	if lost > 0 {
		t.Fatalf("%d of %d failed saves were reported as successful", lost, runs)
	}
}
