package rep1
import (
	"testing"
	"github.com/0chain/common/core/statecache"
	"github.com/0chain/common/core/logging"
	"go.uber.org/zap"
)
func TestMemoKeepsDescendant(t *testing.T) {
	logging.Logger = zap.NewNop()
	sc := statecache.NewStateCache()
	g := statecache.NewBlockCache(sc, statecache.Block{Round: 1, Hash: "G", PrevHash: ""})
	g.Set("k", statecache.String("vG")); g.Commit()
	p := statecache.NewBlockCache(sc, statecache.Block{Round: 2, Hash: "P", PrevHash: "G"})
	p.Set("other", statecache.String("x")); p.Commit()
	d := statecache.NewBlockCache(sc, statecache.Block{Round: 3, Hash: "D", PrevHash: "P"})
	d.Set("k", statecache.String("vD")); d.Commit()
	if v, ok := sc.Get("k", "D"); !ok || v.(statecache.String) != "vD" { t.Fatalf("before: %v %v", v, ok) }
	if v, ok := sc.Get("k", "P"); !ok || v.(statecache.String) != "vG" { t.Fatalf("P: %v %v", v, ok) }
	if v, ok := sc.Get("k", "D"); !ok || v.(statecache.String) != "vD" { t.Fatalf("after reading P, D sees %v %v (want vD)", v, ok) }
}
