package util
import (
	"sync"
	"testing"
	"github.com/0chain/common/core/logging"
	"github.com/0chain/common/core/statecache"
	"go.uber.org/zap"
)
func init() { logging.Logger = zap.NewNop() }
type tv struct{ s string }
func (v *tv) MarshalMsg([]byte) ([]byte, error) { return []byte(v.s), nil }
func (v *tv) UnmarshalMsg(b []byte) ([]byte, error) { v.s = string(b); return nil, nil }

// concurrent lookups that run into an absent node
func TestRaceMissingKeys(t *testing.T) {
	db := NewMemoryNodeDB()
	mpt := NewMerklePatriciaTrie(db, 1, nil, statecache.NewEmpty())
	for _, p := range []string{"1234", "1256", "ab"} { if _, err := mpt.Insert(Path(p), &tv{p}); err != nil { t.Fatal(err) } }
	// remove one interior node from the store
	var victim Key
	mpt.Iterate(nil2ctx(), func(ctx ctxT, path Path, key Key, node Node) error { if _, ok := node.(*LeafNode); ok && victim == nil { victim = key }; return nil }, NodeTypeLeafNode)
	db.DeleteNode(victim)
	mpt2 := NewMerklePatriciaTrie(db, 1, mpt.GetRoot(), statecache.NewEmpty())
	var wg sync.WaitGroup
	for g := 0; g < 4; g++ { wg.Add(1); go func() { defer wg.Done(); for i := 0; i < 200; i++ { for _, p := range []string{"1234", "1256", "ab"} { mpt2.GetNodeValueRaw(Path(p)) } } }() }
	wg.Wait()
}
// merging a child while another goroutine asks the parent's store for its version
func TestRaceLevelVersion(t *testing.T) {
	base := NewMemoryNodeDB()
	pdb := NewLevelNodeDB(NewMemoryNodeDB(), base, false)
	parent := NewMerklePatriciaTrie(pdb, 1, nil, statecache.NewEmpty())
	var wg sync.WaitGroup
	wg.Add(2)
	go func() { defer wg.Done(); for i := 0; i < 200; i++ {
		cdb := NewLevelNodeDB(NewMemoryNodeDB(), pdb, false)
		child := NewMerklePatriciaTrie(cdb, 1, parent.GetRoot(), statecache.NewEmpty())
		child.Insert(Path("12"), &tv{"x" + string(rune('a'+i%26))})
		if err := parent.MergeMPTChanges(child); err != nil { t.Error(err); return }
	} }()
	go func() { defer wg.Done(); for i := 0; i < 2000; i++ { pdb.GetDBVersion() } }()
	wg.Wait()
}
