package util
import "context"
type ctxT = context.Context
func nil2ctx() context.Context { return context.Background() }
