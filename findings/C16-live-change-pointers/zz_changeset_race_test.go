package util

// Witness for the defect repaired by the "fix:" commit recorded in
// /verif/known_findings.json (C16 REF-livechange): GetChanges handed out the change
// collector's own *NodeChange objects, which AddChange rewrites in place (chain A -> B
// becomes A -> C): a goroutine reading a change set raced with a writer updating the key.
//
// run: REPO=/repo /verif/tools/mkscratch_util.sh /tmp/sc && cp zz_changeset_race_test.go /tmp/sc/util/ && cd /tmp/sc && go test -race -count=1 -run TestChangeSetReadersDoNotRace ./util/

import (
	"fmt"
	"sync"
	"testing"

	"github.com/0chain/common/core/logging"
	"github.com/0chain/common/core/statecache"
	"go.uber.org/zap"
)

// a reader inspects the change set GetChanges returned while a writer keeps updating the same key
func TestChangeSetReadersDoNotRace(t *testing.T) {
	mpt := NewMerklePatriciaTrie(NewMemoryNodeDB(), Sequence(0), nil, statecache.NewEmpty())
	mpt.Insert(Path("0123"), &changeSetVal{"a"})
	mpt.Insert(Path("0456"), &changeSetVal{"b"})
	var wg sync.WaitGroup
	wg.Add(2)
	go func() {
		defer wg.Done()
		for i := 0; i < 2000; i++ {
			mpt.Insert(Path("0123"), &changeSetVal{fmt.Sprint("v", i)})
		}
	}()
	go func() {
		defer wg.Done()
		for i := 0; i < 2000; i++ {
			_, changes, _, _ := mpt.GetChanges()
			for _, c := range changes {
				_ = c.New.GetHash()
			}
		}
	}()
	wg.Wait()
}

type changeSetVal struct{ s string }

func (v *changeSetVal) MarshalMsg(b []byte) ([]byte, error) { return append(b, v.s...), nil }
func (v *changeSetVal) UnmarshalMsg(b []byte) ([]byte, error) {
	v.s = string(b)
	return nil, nil
}

func init() { logging.Logger = zap.NewNop() }
