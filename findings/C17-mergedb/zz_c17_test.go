package util
import (
	"context"
	"testing"
	"github.com/0chain/common/core/statecache"
)
// sync repair from a donor store at a trie version different from the nodes' creation version
func TestMergeDBOtherVersion(t *testing.T) {
	keys := []string{"1234", "1256", "ab12", "ab34", "ff"}
	// donor: full trie built at version 5
	donorDB := NewMemoryNodeDB()
	donor := NewMerklePatriciaTrie(donorDB, 5, nil, statecache.NewEmpty())
	ins(t, donor, keys...)
	root := donor.GetRoot()
	donorHashes := map[string]bool{}
	donorDB.Iterate(context.Background(), func(ctx context.Context, key Key, node Node) error {
		if string(key) != string(node.GetHashBytes()) { t.Errorf("donor node not under own hash before merge") }
		donorHashes[string(key)] = true
		return nil
	})
	// trie to repair: empty store, version 9, same root
	mine := NewMemoryNodeDB()
	m := NewMerklePatriciaTrie(mine, 9, root, statecache.NewEmpty())
	if err := m.MergeDB(donorDB, root, nil); err != nil { t.Fatal(err) }
	for _, k := range keys {
		v, err := m.GetNodeValueRaw(Path(k))
		if err != nil || string(v) != "v"+k { t.Errorf("after repair: %s -> %q, %v", k, v, err) }
	}
	if string(m.GetRoot()) != string(root) { t.Errorf("root changed") }
	// donor must be left unchanged
	donorDB.Iterate(context.Background(), func(ctx context.Context, key Key, node Node) error {
		if string(key) != string(node.GetHashBytes()) { t.Errorf("donor node %x no longer hashes to its key after the merge", key) }
		return nil
	})
}
