#!/usr/bin/env python3
"""Runs the repository's baseline test command (guard off) and compares the
set of passing tests with /root/.vp/BASELINE.json's stable_pass."""
import json, subprocess, os, sys
env = dict(os.environ, GOFLAGS="-mod=mod", GOPROXY="off", GOSUMDB="off", GOTOOLCHAIN="local")
p = subprocess.run("go test -mod=mod -json -vet=off -count=1 ./...", shell=True, cwd="/repo", env=env, capture_output=True, text=True)
passed = set()
for line in p.stdout.splitlines():
    try:
        e = json.loads(line)
    except Exception:
        continue
    if e.get("Action") == "pass" and e.get("Test"):
        passed.add(e["Package"] + "::" + e["Test"])
base = set(json.load(open("/root/.vp/BASELINE.json"))["stable_pass"])
missing = sorted(base - passed)
print("baseline stable:", len(base), "passing now:", len(base & passed), "missing:", missing)
sys.exit(1 if missing else 0)
