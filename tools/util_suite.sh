#!/bin/bash
# Triage helper: runs each top-level test of core/util's own suite in the scratch copy (in-memory PNodeDB stand-in)
# usage: util_suite.sh <scratchdir> -> prints PASS/FAIL per test
cd $1; export GOFLAGS=-mod=mod GOPROXY=off GOSUMDB=off GOTOOLCHAIN=local
go test -c -o util.test ./util/ || exit 1
for t in $(./util.test -test.list '.*'); do
  if timeout 120 ./util.test -test.run "^$t\$" -test.count=1 >/dev/null 2>&1; then echo "PASS $t"; else echo "FAIL $t"; fi
done
rm -f util.test
