#!/bin/bash
# Triage helper (NOT part of any registered check): builds a scratch module
# with a copy of /repo/core/util in which only the RocksDB-backed store
# (mpt_pnodedb*.go, cannot link in this sandbox) is replaced by an in-memory
# stand-in, so that a suspected defect can be reproduced against the real code.
# usage: mkscratch_util.sh <dir>     (dir must be outside /repo and /verif)
set -e
d=$1; mkdir -p $d/util
for f in ${REPO:-/repo}/core/util/*.go; do
  case $(basename $f) in *_test.go|mpt_pnodedb*.go) continue;; esac
  cp $f $d/util/
done
cat > $d/util/pnodedb_stub.go <<'EOS'
package util

import (
	"context"
	"sync"
)

// PNodeDB stand-in: stores Encode() bytes under the key like the real one.
type PNodeDB struct {
	mu      sync.Mutex
	data    map[string][]byte
	dead    map[int64][]string
	version int64
}

func NewPNodeDB(string, string) (*PNodeDB, error) {
	return &PNodeDB{data: map[string][]byte{}, dead: map[int64][]string{}}, nil
}
func (p *PNodeDB) GetNode(key Key) (Node, error) {
	p.mu.Lock()
	defer p.mu.Unlock()
	b, ok := p.data[string(key)]
	if !ok {
		return nil, ErrNodeNotFound
	}
	return CreateNode(bytesReader(b))
}
func (p *PNodeDB) PutNode(key Key, node Node) error {
	p.mu.Lock()
	defer p.mu.Unlock()
	p.data[string(key)] = node.CloneNode().Encode()
	return nil
}
func (p *PNodeDB) DeleteNode(key Key) error {
	p.mu.Lock()
	defer p.mu.Unlock()
	delete(p.data, string(key))
	return nil
}
func (p *PNodeDB) MultiGetNode(keys []Key) (nodes []Node, err error) {
	for _, k := range keys {
		n, e := p.GetNode(k)
		if e != nil {
			err = e
			continue
		}
		nodes = append(nodes, n)
	}
	return
}
func (p *PNodeDB) MultiPutNode(keys []Key, nodes []Node) error {
	for i, k := range keys {
		if err := p.PutNode(k, nodes[i]); err != nil {
			return err
		}
	}
	return nil
}
func (p *PNodeDB) MultiDeleteNode(keys []Key) error {
	for _, k := range keys {
		p.DeleteNode(k)
	}
	return nil
}
func (p *PNodeDB) Iterate(ctx context.Context, h NodeDBIteratorHandler) error {
	p.mu.Lock()
	cp := map[string][]byte{}
	for k, v := range p.data {
		cp[k] = v
	}
	p.mu.Unlock()
	for k, v := range cp {
		n, err := CreateNode(bytesReader(v))
		if err != nil {
			continue
		}
		if err := h(ctx, Key(k), n); err != nil {
			return err
		}
	}
	return nil
}
func (p *PNodeDB) Size(ctx context.Context) int64 { return int64(len(p.data)) }
func (p *PNodeDB) Flush()                         {}
func (p *PNodeDB) RecordDeadNodes(nodes []Node, v int64) error {
	for _, n := range nodes {
		p.dead[v] = append(p.dead[v], n.GetHash())
	}
	return nil
}
func (p *PNodeDB) PruneBelowVersion(ctx context.Context, version int64) error {
	for v, ks := range p.dead {
		if v < version {
			for _, k := range ks {
				b, _ := fromHex(k)
				p.DeleteNode(b)
			}
			delete(p.dead, v)
		}
	}
	return nil
}
EOS
cat > $d/util/pnodedb_stub2.go <<'EOS'
package util

import "bytes"

func bytesReader(b []byte) *bytes.Reader { return bytes.NewReader(b) }
EOS
cat > $d/go.mod <<EOS
module scratch
go 1.21
require github.com/0chain/common v0.0.0
replace github.com/0chain/common => ${REPO:-/repo}
replace github.com/tinylib/msgp => github.com/0chain/msgp v1.1.62
EOS
cp ${REPO:-/repo}/go.sum $d/
echo "scratch util module in $d (package scratch/util)"
