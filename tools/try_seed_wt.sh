#!/bin/bash
# usage: try_seed_wt.sh <patch.diff> [props...]  -- like try_seed.sh but on a private scratch worktree (leaves /repo alone)
# env: VERIFSA (binary, default /verif/bin/verifsa), WT (worktree dir, default /tmp/tryseed_wt)
patch=$1; shift
props=${@:-C01 C02 C03 C04 C05 C06 C07 C08 C09 C10 C11 C12 C13 C14 C15 C16 C17 C18 C19 C20}
BIN=${VERIFSA:-/verif/bin/verifsa}; WT=${WT:-/tmp/tryseed_wt}
if [ ! -d $WT ]; then git -C /repo worktree add -q $WT HEAD || exit 2; fi
cd $WT || exit 2
git checkout -q --detach $(git -C /repo rev-parse HEAD) 2>/dev/null; git checkout -- . 
git apply "$patch" || { echo "patch does not apply"; exit 2; }
trap 'git -C '$WT' checkout -- . ' EXIT
for p in $props; do
  ( out=$($BIN check -property $p -no-evidence -repo $WT 2>&1); code=$?
    if [ $code -ne 0 ]; then echo "== $p exit=$code"; echo "$out" | grep -E "^(VIOLATION|UNDECIDED|UNRESOLVED)" | grep -v "property=" | cut -c1-260 | head -4; echo "$out" | grep -i "infrastructure\|panic" | head -2; fi ) &
  while [ $(jobs -r | wc -l) -ge 4 ]; do sleep 0.2; done
done
wait
echo "-- done"
