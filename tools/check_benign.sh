#!/bin/bash
# usage: check_benign.sh [ids...] -- runs ALL checks against every behaviour-preserving refactoring kept under /verif/benign
# (applied to a private scratch worktree of /repo HEAD; /repo itself is not touched). Any report is a false alarm of the suite.
BIN=${VERIFSA:-/verif/bin/verifsa}; WT=${WT:-/tmp/benign_wt}
if [ ! -d $WT ]; then git -C /repo worktree add -q $WT HEAD || exit 2; fi
cd $WT || exit 2
git checkout -q --detach $(git -C /repo rev-parse HEAD); git checkout -q -- .; git clean -fdq
ids=${@:-$(ls /verif/benign)}
bad=0
for id in $ids; do
  git checkout -q -- .; git clean -fdq
  git apply /verif/benign/$id/patch.diff 2>/dev/null || { echo "$id: patch does not apply to this tree (skipped)"; continue; }
  out=$($BIN checkall -repo $WT 2>&1); code=$?
  if [ $code -ne 0 ]; then bad=$((bad+1)); echo "$id: FALSE ALARM"; echo "$out" | sed -n 1,4p | cut -c1-260; else echo "$id: silent"; fi
done
git checkout -q -- .; git clean -fdq
echo "false alarms: $bad"
[ $bad -eq 0 ]
