#!/usr/bin/env python3
"""Confirms a seeded change produced by a sub-agent and files it under /verif/seeded/.

usage: confirm_seed.py <src-dir> <seed-id> <property> "<what it needs to manifest>"

<src-dir> holds patch.diff, demo/ (Go test files for package util of the scratch copy, or an external module with go.mod) and README.md.
Steps (all in scratch locations outside /repo and /verif, removed afterwards):
  1. a scratch git worktree of /repo HEAD; the patch applies, the repo packages type-check (analyser loader) and build;
  2. the repository's baseline tests with the patch: every stable-pass test still passes;
  3. the demonstration passes on the clean worktree and fails with the patch;
  4. every registered check is run against the scratch worktree with the patch applied (verifsa checkall), recording which ones report it.
"""
import json, os, shutil, subprocess, sys, glob, re

ENV = dict(os.environ, GOFLAGS="-mod=mod", GOPROXY="off", GOSUMDB="off", GOTOOLCHAIN="local", GOWORK="off")
BIN = os.environ.get("VERIFSA", "/verif/bin/verifsa")
CW = os.environ.get("CONFIRM_WT", "/tmp/confirm_wt")
SC = os.environ.get("CONFIRM_SC", "/tmp/confirm_scratch")


def sh(cmd, cwd=None, timeout=1800):
    p = subprocess.run(cmd, shell=True, cwd=cwd, env=ENV, capture_output=True, text=True, timeout=timeout)
    return p.returncode, p.stdout + p.stderr


def baseline_ok(repo):
    code, out = sh("go test -mod=mod -json -vet=off -count=1 ./...", cwd=repo)
    passed = set()
    for line in out.splitlines():
        try:
            e = json.loads(line)
        except Exception:
            continue
        if e.get("Action") == "pass" and e.get("Test"):
            passed.add(e["Package"] + "::" + e["Test"])
    base = set(json.load(open("/root/.vp/BASELINE.json"))["stable_pass"])
    return sorted(base - passed)


def run_demo(src, repo):
    """returns (ok, tail of output)"""
    demo = os.path.join(src, "demo")
    shutil.rmtree(SC, ignore_errors=True)
    is_util = any(re.search(r"^package util\b", open(f).read(), re.M) for f in glob.glob(os.path.join(demo, "*_test.go")))
    if os.path.exists(os.path.join(demo, "go.mod")) and not is_util:
        shutil.copytree(demo, SC)
        gm = open(os.path.join(SC, "go.mod")).read()
        gm = re.sub(r"(replace github.com/0chain/common => )\S+", r"\1" + repo, gm)
        open(os.path.join(SC, "go.mod"), "w").write(gm)
        shutil.copy(os.path.join(repo, "go.sum"), os.path.join(SC, "go.sum"))
        code, out = sh("go test -count=1 ./...", cwd=SC)
    else:
        code, out = sh("REPO=%s /verif/tools/mkscratch_util.sh %s" % (repo, SC))
        gm = open(os.path.join(SC, "go.mod")).read().replace("=> /repo", "=> " + repo)
        open(os.path.join(SC, "go.mod"), "w").write(gm)
        # copy the util sources from the worktree under test (the helper copies from /repo)
        for f in glob.glob(os.path.join(repo, "core/util/*.go")):
            b = os.path.basename(f)
            if b.endswith("_test.go") or b.startswith("mpt_pnodedb"):
                continue
            shutil.copy(f, os.path.join(SC, "util", b))
        names = []
        for f in glob.glob(os.path.join(demo, "*_test.go")):
            shutil.copy(f, os.path.join(SC, "util"))
            names += re.findall(r"^func (Test\w+)\(", open(f).read(), re.M)
        code, out = sh("go test -count=1 -run '^(%s)$' ./util/" % "|".join(names), cwd=SC)
    shutil.rmtree(SC, ignore_errors=True)
    return code == 0, "\n".join(out.strip().splitlines()[-12:])


def main():
    src, sid, prop, needs = sys.argv[1:5]
    patch = os.path.join(src, "patch.diff")
    meta = {"seed": sid, "breaks_property": prop, "needs_to_manifest": needs, "ran": []}
    sh("git -C /repo worktree remove --force %s" % CW)
    shutil.rmtree(CW, ignore_errors=True)
    code, out = sh("git -C /repo worktree add -q %s HEAD" % CW)
    assert code == 0, out
    try:
        ok_clean, tail_clean = run_demo(src, CW)
        meta["ran"].append({"step": "demonstration on the clean worktree", "passes": ok_clean, "output_tail": tail_clean})
        code, out = sh("git apply %s" % patch, cwd=CW)
        meta["ran"].append({"step": "git apply patch.diff on a scratch worktree of /repo HEAD", "ok": code == 0, "output": out.strip()})
        if code != 0:
            print("PATCH DOES NOT APPLY", out)
            return 1
        code, out = sh("%s check -property C18 -no-evidence -repo %s" % (BIN, CW))
        meta["ran"].append({"step": "all repo packages type-check with the patch (analyser loader)", "ok": code in (0, 1)})
        code2, out2 = sh("go build $(go list ./... | grep -v core/util$)", cwd=CW)
        meta["ran"].append({"step": "go build of the packages that build in this sandbox", "ok": code2 == 0, "output": out2.strip()[-300:]})
        missing = baseline_ok(CW)
        meta["ran"].append({"step": "baseline test suite with the patch: stable-pass tests missing", "missing": missing})
        ok_mut, tail_mut = run_demo(src, CW)
        meta["ran"].append({"step": "demonstration with the patch", "passes": ok_mut, "output_tail": tail_mut})
        confirmed = ok_clean and not ok_mut and not missing and code in (0, 1)
        meta["confirmed"] = confirmed
        # which checks report it: all 20 checks on the scratch worktree with the patch applied
        codeA, outA = sh("%s checkall -repo %s" % (BIN, CW))
    finally:
        sh("git -C /repo worktree remove --force %s" % CW)
        shutil.rmtree(CW, ignore_errors=True)
    m = re.search(r"^REPORTED-BY: ?(.*)$", outA, re.M)
    caught = sorted(x for x in (m.group(1).split(",") if m else []) if x)
    meta["checks_reporting_it"] = caught
    meta["checks_with_infrastructure_failure"] = [] if m else ["all"]
    meta["first_reports"] = [re.sub(r"^\s+C\d+: ", "", l)[:400] for l in outA.splitlines() if re.match(r"\s+C\d+: (VIOLATION|UNDECIDED|UNRESOLVED)", l)][:6]
    dst = os.path.join("/verif/seeded", sid)
    shutil.rmtree(dst, ignore_errors=True)
    os.makedirs(dst)
    shutil.copy(patch, dst)
    shutil.copytree(os.path.join(src, "demo"), os.path.join(dst, "demo"))
    if os.path.exists(os.path.join(src, "README.md")):
        shutil.copy(os.path.join(src, "README.md"), dst)
    json.dump(meta, open(os.path.join(dst, "meta.json"), "w"), indent=1)
    print(sid, "confirmed=%s" % meta.get("confirmed"), "clean_pass=%s" % ok_clean, "mutated_pass=%s" % ok_mut, "missing=%s" % missing, "caught_by=%s" % caught)
    return 0


sys.exit(main())
