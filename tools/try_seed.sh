#!/bin/bash
# usage: try_seed.sh <patch.diff> [props...]  -- applies a seeded change to /repo, runs the checks, restores /repo
patch=$1; shift
props=${@:-C01 C02 C03 C04 C05 C06 C07 C08 C09 C10 C11 C12 C13 C14 C15 C16 C17 C18 C19 C20}
cd /repo || exit 2
if [ -n "$(git status --short)" ]; then echo "/repo not clean"; exit 2; fi
git apply "$patch" || { echo "patch does not apply"; exit 2; }
trap 'git -C /repo checkout -- . ' EXIT
for p in $props; do
  ( out=$(/verif/bin/verifsa check -property $p -no-evidence 2>&1); code=$?
    if [ $code -ne 0 ]; then echo "== $p exit=$code"; echo "$out" | grep -E "^(VIOLATION|UNDECIDED|UNRESOLVED)" | grep -v "property=" | cut -c1-260 | head -4; echo "$out" | grep -i "infrastructure\|panic" | head -2; fi ) &
  while [ $(jobs -r | wc -l) -ge 5 ]; do sleep 0.2; done
done
wait
echo "-- done"
