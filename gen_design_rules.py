#!/usr/bin/env python3
"""Regenerates DESIGN.md Appendix D (rule inventory) from the evidence files written by the checks."""
import json, glob, re
out = ["## Appendix D — rule inventory as built (generated from /verif/evidence by gen_design_rules.py)\n",
       "Per property: the rules its check applies (text as printed in evidence), with the number of obligations decided on the current tree.\n"]
for f in sorted(glob.glob('/verif/evidence/C*.json')):
    e = json.load(open(f))
    cov = e['coverage']
    expl = cov['explanation']
    rules = expl.split('Rules applied: ', 1)[1].split(' || ') if 'Rules applied: ' in expl else []
    counts = {}
    # samples are capped; count from obligations is not per rule, so recount from samples only as an indication
    out.append("\n### %s — %d obligations, %d discharged, %d known findings, %d functions analysed\n" % (
        e['property_id'], cov['obligations'], cov['discharged'], cov['known_findings'], len(cov['functions_analysed'])))
    for r in rules:
        name, _, text = r.partition(': ')
        out.append("* **%s** — %s" % (name, text))
    if cov.get('not_decided'):
        out.append("* *not decided*: " + "; ".join(cov['not_decided']))
s = open('/verif/DESIGN.md').read()
marker = "## Appendix D — rule inventory as built"
if marker in s:
    s = s[:s.index(marker)]
s = s.rstrip() + "\n\n" + "\n".join(out) + "\n"
open('/verif/DESIGN.md', 'w').write(s)
# Appendix E: seeded changes
import os
idx = '/verif/seeded/INDEX.md'
if os.path.exists(idx):
    body = open(idx).read().split('\n', 2)[2]
    s = open('/verif/DESIGN.md').read().rstrip() + "\n\n## Appendix E — seeded changes and the checks that report them (generated from /verif/seeded/*/meta.json by tools/recheck_seeds.py)\n" + body
    open('/verif/DESIGN.md', 'w').write(s)
print("appendix D written:", len(out), "lines")
