#!/usr/bin/env python3
"""Regenerates MANIFEST.json from the table below (kept in one place so the
manifest is always valid)."""
import json, sys

CHECKS = {
 "C19": dict(
   text="Thin structural check of the Merkle tree: builder, prover and verifier agree on how a node is paired with its sibling (left-first hashing, odd index takes the element before it, even the one after, last node of an odd level pairs with itself); the three level walks step with the same expressions (ceil(size/2), offset + size, index halving; loop bounds consistent); the prover reads the right neighbour only under the strict in-level test; ComputeTree and SetTree establish the same fields, a path has levels-1 elements, the root is the last element. Arithmetic is compared after normalising equivalent spellings (x/2, x>>1, (x-x&1)/2). Further: ComputeTree stores nodes only into a slice it allocated, because GetTree/SetTree share the slice (FRESH-tree); a rejected SetTree leaves the receiver unchanged (DOM-atomic). The comparison with the root is the verifier's only comparison of hash strings.",
   note="Does not decide that every path verifies for every leaf count and index, nor that it fails for another leaf: that is index arithmetic over runtime values and is better served by exhaustive enumeration (another technique family). What is decided are agreement conditions between the three routines, each necessary for honest paths to verify.",
   technique="sibling-implementation agreement with arithmetic normalisation, strict-guard dominance on go/ssa",
   ref="DESIGN.md section 5 C19 / section 6"),
 "C15": dict(
   text="Memory-safety discipline of the decoders, decided for every function in the decoder call closure: each index, slice, fixed-size decode destination and fixed-width read is discharged by a guard from a table of sound idioms holding on every feasible path, or reported; no explicit panic is reachable (six named exceptions, each with its precondition); pointers decoded from the wire are dereferenced only after a nil test; the recursive decoders advance their cursor before recursing. Further: the recursive decoders do constant work per level on recursively decoded subtrees (COST-linear). No unchecked type assertion to a concrete node kind occurs in the decoder closure unless the same value tested to hold it.",
   note="Does not decide the behaviour of the CBOR and msgp libraries on hostile input (third-party). An idiom outside the guard table is reported as a violation (possible false alarm, by design). Termination is decided only as 'one element consumed per recursive call'.",
   technique="guard-table discharge of bounds obligations over go/ssa with feasible-path facts, call-closure panic reachability, nil-test dominance",
   ref="DESIGN.md section 5 C15"),
 "C09": dict(
   text="Structural necessary conditions for weight/ownership/root following content, decided on every path of insert, delete, getBlockProof and markToCollect: a collapsed position is resolved before it is interpreted as another kind or as empty; the weight change of the recursive descent is folded into the branch weight and returned; every store to a hashed field is accompanied by dirty=true; the weight-ordered descent enters a child only under block <= child weight and subtracts skipped weights. Further: the single-child scan of delete keeps its sentinels outside the slot range and its decision accepts exactly the slot numbers (DOM-sentinel). The subtree returned by every recursive insert/delete is linked back or returned (DEP-linkback); an update in place replaces bytes and weight together and its nothing-changed shortcut compares both (AGREE-update); error discipline (ERR-guard, ERR-dropped). CalcHash memoises soundly (DOM-memo); one byte order throughout (AGREE-endian). Shared-prefix nodes never get a possibly empty key (DOM-shortkey); resolved references are private freshly decoded nodes (FRESH-resolved). Walk-shape clauses of insert/delete (round 4): slot = K[l-1] for remainder K[l:] (AGREE-slot), descent below and removal of a shared-prefix node only where the whole key matched (DOM-shortmatch, DOM-deletematch), split children paired with the right values (AGREE-splitpair), fused keys are exact concatenations (AGREE-mergekey, symbolic evaluation), operator and operands of every weight computation (AGREE-weightop), reduction only after the remaining children were counted (DOM-reduce), node results stored only where the error tested nil (ORDER-errstore).",
   note="Does not decide the numeric equalities themselves (total weight, ownership interval, root equality with an independent computation).",
   technique="type-test exhaustiveness with an assumed-kind CFG walk, data-dependence and dominance checks on go/ssa",
   ref="DESIGN.md section 5 C09"),
 "C10": dict(
   text="What the verifier recomputes and what it trusts, decided structurally: every success arm stores the verified child, sets dirty and recomputes the hash before returning, and VerifyBlockProof returns that recomputed hash; range checks guard every success; and 'navigated-by is a subset of committed-to' is checked per node kind. Two known findings: the branch hash binds only the sum of child weights while the verifier navigates by each claimed weight (forgeable, witness recorded); node kinds are not domain-separated in the hash pre-image. Further: serialisation (proof construction) reads cached hashes only after the node tested clean or was re-hashed (ORDER-hashfresh). The prover emits every node it walks (DOM-proofappend); serialised fields = deserialised fields (AGREE-persist); one byte order (AGREE-endian). Copy/CopyRoot of a mutable node kind never hands out the node itself or its child objects and copies byte fields whole (FRESH-copy): proofs from a snapshot stay valid while the original changes.",
   note="Does not decide absence of other forgeries (a statement over all byte strings).",
   technique="ordering/dominance checks, range-guard facts, pre-image vs decision-input agreement on go/ssa",
   ref="DESIGN.md section 5 C10"),
 "C11": dict(
   text="Structural necessary conditions for recoverability and safe garbage collection: every saved kind is put into the batch before a success return and after its dirty children; nothing reachable from Commit deletes from storage; DeleteNodes deletes only the `deleted` set and stages tempDeleted afterwards; the created-hash handler must purge every field that later feeds deletes; only saving/decoding entry points may clear the dirty flag. Known findings: tempDeleted is not purged; Root/GetBlockProof/GetPath clear dirty (witnesses recorded). Further: a previous hash is scheduled for collection only when it differs from the node's new hash (DOM-unchanged). Known finding REF-shared: nodes are stored and collected by content hash with no position component, so identical content under two keys is one stored node that a delete of either key collects. Error discipline of the weighted trie (ERR-guard, ERR-dropped); DOM-unchanged also covers the exported Commit (root). Copy/CopyRoot never shares mutable nodes (FRESH-copy); a node's hash buffer is never rewritten in place (FRESH-hashbuf).",
   note="Does not decide that a reopened trie is observationally identical; batches are the atomic unit by the property's quantifier.",
   technique="must-pass-through, call-graph effect confinement, provenance dataflow of deleted keys, field-set agreement on go/ssa",
   ref="DESIGN.md section 5 C11"),
 "C12": dict(
   text="Thin structural check of the path export: every path through GetPath marks the requested keys (parallel or sequential loop) before assembling the export, for every root kind; writer and reader of the embedded shared-prefix child agree on field order, offsets and byte order; export and import walk in the same pre-order; markToCollect resolves collapsed positions. Further: every node on a requested key's path is marked for export also when the key is absent below it (DOM-marked); a storage-less trie keeps unresolved references instead of failing (DOM-nodb); exported nodes carry fresh hashes (ORDER-hashfresh). The importer links each decoded subtree only under a matching parent hash and re-checks the root hash (DOM-childhash); AGREE-persist. Node results are stored into live nodes only where the error tested nil (ORDER-errstore); above the collapse level CopyRoot keeps node kinds (AGREE-copyroot); the position-indexed marking walk selects slot key[pos] and continues at pos+1 / pos+len(node key) under the key comparison (AGREE-slotpos); the branch root of the parallel collection is marked before the workers start.",
   note="Does not decide root/weight equality after mirrored updates. Import-side hash checks are deliberately not armed (not necessary for honest exports).",
   technique="path-avoidance feasibility check, writer/reader layout agreement on go/ssa",
   ref="DESIGN.md section 5 C12"),
 "C13": dict(
   text="Agreement between the two rollback entry points and the checkpoint: both reset created/tempDeleted/deleted and delete exactly `created` through one batch; SaveRoot records (hash, weight) of the root and resets `created`, Rollback restores from exactly those; commit must record a node as created under the same hash-changed condition as it records the old hash deleted. Known finding: created is recorded unconditionally (witness recorded). Further: what Rollback installs is decided by and built from the checkpoint only (DEP-checkpoint). Commit resets the created list only where the root tested dirty (DOM-createdkept); a node's hash buffer, which the checkpoint aliases, is never rewritten in place (FRESH-hashbuf).",
   note="Does not decide resolvability of every checkpoint node after rollback for every history.",
   technique="sibling agreement (field-reset sets, guard conditions) on go/ssa",
   ref="DESIGN.md section 5 C13"),
 "C17": dict(
   text="Error discipline and traversal structure behind missing-node detection and repair, decided on every path: at each of the trie's node lookups every error-path return yields a real error (never the benign 'not present' sentinel, never success); the branch arm of the traversal keeps visiting the remaining children, counts absent-node sentinels and reports under counter != 0; the sentinel set counted by the traversal equals the set the detector maps to 'missing'; nodes handed out by the donor store during repair are stored under their own hash without being modified. Further: every failed node access is recorded among the reported missing keys (DOM-record). Node stores answer 'found' only where their lookup hit (DOM-nodefound); general error discipline over the package (ERR-guard, ERR-dropped).",
   note="Does not decide exactness of the reported key set for every removal subset. Path enumeration per function is capped at 4096 acyclic paths.",
   technique="error-path return classification with feasible-path facts, loop/counter structure check, sentinel-set agreement, provenance dataflow (FRESH) on go/ssa",
   ref="DESIGN.md section 5 C17"),
 "C14": dict(
   text="Addressing and codec agreement decided structurally: at every store write site the key is the hash of the very node written (insertNode stamp-hash-put, UpdateChanges keys[i]=hash(nodes[i]), persistent store Encode() under the given key, memory/layered stores pass key and node unchanged); the type-code tables of writer and reader are inverse; origin tracker and node header are written and read in the same (byte order, field) sequence; per node type separators written = separators scanned, fields written and read in the same order, child keys hex on both sides, and separator-unsafe fields only after the last separator. Further: no trie operation edits a store-owned node object in place (FRESH-node), which would leave the memory store with an entry not addressed by its own hash. The fields each node kind persists are exactly the fields its decoder restores and its structural copy copies (AGREE-fieldset). In Clone/CloneNode a value read from field F of the source reaches field F of the copy, through getters, setters, constructors and interface calls (AGREE-clonefields).",
   note="Does not decide byte-exact round trip for every value. AGREE-fields reads the codec functions' syntax (typed AST) and accepts only constant-bound loops; other shapes are reported as undecided.",
   technique="writer/reader skeleton agreement over typed AST and go/ssa, key/index agreement at store write sites",
   ref="DESIGN.md section 5 C14"),
 "C01": dict(
   text="Totality and pre-condition clauses of the map behaviour, decided on every path: each node-kind dispatch of lookup/insert/delete/iterate has an arm for every storable kind, no such arm is a panic and no panicking default is reachable with a nil node; Insert locks or mutates only after rejecting over-size values and routing nil/empty values to Delete; deleting at a value-less branch, under a mismatching leaf or below a nil child reports 'not present'; no extension node is ever built with an empty path (which would hide its subtree from lookups). Further: only a value-less branch is replaced by its only child (DOM-lift); a node the rebuilt trie still references is never handed to deleteNode (WHO-livedelete). The node codecs agree on separators and field order (AGREE-fields, see C14). Error discipline of the trie operations: the branch taken when a call failed returns a non-nil error, no error of a trie/store operation is dropped (ERR-guard, ERR-dropped). Walk-shape clauses (round 4): the path element that selects a branch slot is exactly the one the remainder skips (AGREE-childslot); 'this node is the entry for the key' is decided only under the comparison that establishes it, in lookup, insert and delete, including every walk below an extension (DOM-keymatch); a value is put on a new branch only where its key ends there (DOM-valueat); a node that moves up gets exactly what its vanished parent consumed in front of its own path (AGREE-mergepath, symbolic concatenation); a branch is dissolved only under the matching child count (DOM-childcount); the node accessors hand out fresh buffers (FRESH-bytes).",
   note="Does not decide that lookups return the last stored value for every history (path arithmetic and slicing are value-level), nor hex validation of paths (outside the quantifier). The 'non-nil node when no error' fact about getNode is assumed (named results, not constants).",
   technique="type-dispatch exhaustiveness + nil-result summaries, path-sensitive guard facts, non-emptiness discharge table on go/ssa",
   ref="DESIGN.md section 5 C01"),
 "C02": dict(
   text="What the root hash is computed from and when, decided structurally: the three node kinds hash little-endian origin || exactly the fields they persist (same encode function object for hashing and storing); insertNode stamps the origin before hashing and stores under that hash; branch arms that clear a slot read the child count and value presence (necessary for canonical collapse); no empty-path extension is constructed. The defect this rule found (removing a branch's value never inspected the child count) is repaired in /repo (fix: a175b31). Further: every key installed as an extension's child is provably the key of a branch (DEP-extchild). A valued branch that loses its last child becomes a leaf (DEP-canon leaf clause). A node that moves up when delete removes its parent gets exactly the consumed path elements in front of its own path (AGREE-mergepath).",
   note="Does not decide equality with an independent implementation for every content, full history independence, or collision resistance. DEP-canon is a necessary condition only (reads of GetNumChildren/HasValue), not proof of canonical restructuring.",
   technique="sibling skeleton agreement, ordering/dominance checks and must-depend-on reads on go/ssa",
   ref="DESIGN.md section 5 C02"),
 "C05": dict(
   text="Structural necessary conditions for dead-node records and pruning, decided on every path: AddChange cancels the dead record of re-created content on every path and dead records are keyed by the recorded node's hash; every node hash starts with the node's origin; the pruner forwards a record only under the strict test round < version, deletes only keys/rounds that came from forwarded records, drops records only after all node deletes, and writer/reader/deleter agree on record key codec (big-endian) and column families. Further: WHO-livedelete and DOM-samekey (see C04): no live hash enters the dead set through a kept child or an unchanged re-write. The dead-node record of a round is built only from this execution's nodes (DEP-recordonly); DOM-mergeall. Every successful return of RecordDeadNodes/saveDeadNodes went through the store write, so an empty set still replaces the round's record (DOM-recordwritten).",
   note="Does not decide reachability of recorded nodes from later roots (a graph property of runtime content). The RocksDB binding is analysed as a named API. Channel hand-over between the iterator goroutine and the deleter is assumed faithful.",
   technique="must-pass-through and strict-guard checks, provenance dataflow of deleted keys, writer/reader codec agreement on go/ssa",
   ref="DESIGN.md section 5 C05"),
 "C04": dict(
   text="Structural necessary conditions of a complete, crash-safe save, decided on every path: the trie writes its store and feeds its change collector only in insertNode/deleteNode, every (re)created node is collected unless its hash is unchanged, each node is stored under its own hash; a save is exactly one MultiPutNode batch (keys[i] = hash of nodes[i] = copy of the change's New node) before any delete, deletes only under includeDeletes, arguments passed through unchanged; the persistent store reaches RocksDB only through one WriteBatch written once after the loop; plus FRESH-node (no in-place write to shared node bytes). Further: a still-referenced node is never deleted (WHO-livedelete); an unchanged re-write is not reported to the change collector (DOM-samekey). A change is recorded under the new node's hash with the new node on every path of AddChange except the cancel-out (DOM-recorded); error discipline over the node stores and the save path (ERR-guard, ERR-dropped).",
   note="Does not decide completeness of the change set for every history (rests on C01's map semantics) nor RocksDB's own atomicity (batches are the atomic unit by the property's quantifier). The RocksDB binding is analysed as a named API (it cannot be compiled here).",
   technique="who-may-call/effect confinement over the repo call graph, path-sensitive must-pass-through, index/key agreement on go/ssa",
   ref="DESIGN.md section 5 C04"),
 "C03": dict(
   text="Layering, guard and copy discipline that child-trie isolation rests on, decided on every path: the layered store never writes its parent level (deletes only under PropagateDeletes); a merge replays changes only after the start-root comparison succeeded and only from a direct child; the memory store keeps CloneNode() copies under the given key; and no trie operation writes in place to node memory that derives from the store, the node cache, a pending change or a caller (interprocedural source-label dataflow). Further: a merge never reports success on a path where the parent's root is neither equal to nor set to the child's (DOM-adopt). The level store's lookups never read its delete tombstones (WHO-tombstones); the merge replays every change (DOM-mergeall). The byte slices handed out by MarshalMsg/Encode/GetHashBytes/GetValueBytes are new buffers on every return (FRESH-bytes), which FRESH-node assumes.",
   note="Does not decide equality of parent and child views after arbitrary histories. Constructors are modelled as returning fresh objects (slices handed to them are assumed not written later through the new node); aliasing is label-based, not a points-to analysis. One named exception: re-stamping the origin of replayed child nodes in mergeChanges (idempotent at equal versions).",
   technique="call-site effect confinement, path-sensitive guard checks, interprocedural provenance dataflow (FRESH) on go/ssa",
   ref="DESIGN.md section 5 C03"),
 "C16": dict(
   text="Race freedom of one state trie by guarded-by discipline, decided for every call path from the trie operations named in the property and the exported store/collector methods: root, deleteNodes, missing-key list, store maps, level links and collector maps only under their owner's mutex in the required mode (writes need the write lock; goroutine bodies start with nothing held); constructor-only fields never rewritten; Insert/Delete/MergeChanges/MergeDB are single critical sections (one write-lock acquisition dominating every root access, released by defer). Every mutex acquisition is released on every path to a return, every release is preceded by its acquisition (PAIR-unlock). No mutex is re-acquired by the goroutine that holds it on the same object (LOCK-reentrant).",
   note="Does not decide linearizability of histories (needs executions). SetVersion is outside the property's operation set and is not an entry. Locks are identified per (owner type, field). Trusted: go/ssa; own CHA call graph with function values resolved through parameters.",
   technique="interprocedural must-lockset analysis over go/ssa + repo call graph, guard table per field, dominance check of critical sections",
   ref="DESIGN.md section 5 C16"),
 "C20": dict(
   text="Structural necessary conditions of the in-memory log ring, decided on every path from the logger API: cursor, slot values and ring traversals only under the core's mutex (of the same core value); no core is built with a by-value copy of another core's cursor (one cursor, one lock per ring); entry objects are never rewritten once stored; Write stores at the cursor and then advances by exactly one Next(). GetLogs stores what it visits into its result; only the root core writes the ring (SNAPSHOT-all, AGREE-share clauses); lock pairing (PAIR-unlock). The byte view of a pooled encoder buffer is never returned, stored or used after Free (REF-pooled); the package builds no sampling or level-raising core in front of the memory core (WHO-filter).",
   note="Does not decide 'exactly the most recent N, newest first' (index arithmetic in GetLogs) for every history. Trusted: go/ssa; container/ring and zap as named APIs; lock identity per (owner type, field) plus a same-receiver check inside each function.",
   technique="must-lockset analysis + constructor/aliasing audit + store-freshness and ordering checks on go/ssa",
   ref="DESIGN.md section 5 C20"),
 "C18": dict(
   text="Checked-arithmetic discipline of core/currency decided on every feasible path: each integer + - * / %, each numeric conversion and the panicking decimal constructor is discharged by an accepted guard idiom (operand wrap check, subtrahend<=minuend, post-division check over a non-zero factor, non-zero divisor, sign/NaN/2^64 rejection before float->uint64, NaN/Inf rejection before NewFromFloat) or reported; plus an operator table of the named helpers. The package is small, loop-free and pure, so this covers nearly the whole 'never wraps, saturates or panics' clause. Further: float-taking helpers report success only after the argument tested a number and bounded from above, or by delegating a value computed from it (ARG-finite). A float argument folded into a product tested not negative first (ARG-finite sign clause). ParseZCN converts its argument with decimal.NewFromFloat and no other constructor, so the too-many-decimals rejection stays reachable.",
   note="Does not decide the decimal-exponent logic of ParseZCN/ToZCN (library semantics) nor the format/parse round trip; exactness is decided only as 'result of the promised operator on the parameters, reached only when the guard excludes wrap-around'. An idiom outside the guard table is reported as undecided. Trusted: go/ssa; structural equality of guard atoms.",
   technique="guard-table discharge of arithmetic instructions over go/ssa with feasible-path facts",
   ref="DESIGN.md section 5 C18"),
 "C08": dict(
   text="Race freedom by guarded-by discipline and commit/publication order, decided statically for every call path from the exported cache API: plain maps and rewritable fields only under their owner's mutex in the required mode (interprocedural must-lockset), sync/atomic counters never accessed plainly, constructor-only fields never rewritten; every commit-path write into the shared LRU maps under the state cache's lock; the block's ancestor link published after all of the block's keys. Further: the data handed out belongs to the entry whose tombstone flag was tested, also after the own-entry re-check (DOM-tombstone). Every mutex acquisition is released on every path to a return, every release is preceded by its acquisition (PAIR-unlock). No mutex is re-acquired by the goroutine that holds it on the same object (LOCK-reentrant, receiver-sensitive over call chains).",
   note="Does not decide that every interleaving of the deliberately lock-free StateCache.Get with a commit returns the block-tree value (needs exploring interleavings). Locks are identified per (owner type, field), not per instance. Trusted: go/ssa, CHA call graph; the LRU library is internally synchronised.",
   technique="interprocedural must-lockset analysis over go/ssa + repo call graph, guard table per field, CFG reachability for publication order",
   ref="DESIGN.md section 5 C08"),
 "C06": dict(
   text="Structural necessary conditions of correct cache answers, decided on every feasible CFG path: an existing per-key versions map is never replaced when (re)installing it; a handed-out entry is reached only with its tombstone tested false; each layer consults its own map before delegating (block layer continues at the previous block); the ancestor walk only follows the queried hash and stored links, memoises the found entry under the queried hash; entries are stored under the key/hash given and remove arms store deleted=true. Further: writes and removals are recorded in the layer's pending map on every path (DOM-writekept); the tombstone test and the data read concern the same entry (rewrite-sensitive DOM-tombstone). One known finding (CAP-absence): the per-key versions map is a recency-evicting LRU while the walk reads absence as 'not written' - stale hit after eviction, witness recorded. The two results of every lookup agree (RET-pair); lookup results of the cache maps are asserted only where found (DOM-found). A write stores a fresh Clone (FRESH-write); commit publishes every entry of the block (DOM-commitall). TransactionCache.Commit empties the pending map after the hand-over on every return (DOM-txreset).",
   note="Does not decide answers after LRU eviction nor equality with the block-tree oracle for every history (value-level). Trusted: go/ssa model; structural equality of tested atoms; third-party LRU as a named API.",
   technique="path-sensitive guard (must-pass-through) checks on go/ssa CFG, provenance dataflow for hash/key sources",
   ref="DESIGN.md section 5 C06"),
 "C07": dict(
   text="Structural necessary conditions of cache isolation decided on every CFG path: every Value crossing a cache-map boundary (caller->map, map->caller, txn->block->state) has a Clone() result as its only provenance; setValue/commit are reachable only from the commit entry points; every Clone() implementation is a deep (codec) copy. Breaking any of these shares a mutable value or leaks an uncommitted write. Further: DOM-writekept (see C06): what a transaction commits, including tombstones, always reaches the block's pending map. Lookups never store into a pending map (WHO-readonly, see C06). commit stores the block's entries and publishes its link, returning early only when already committed (DOM-commit); stored entries keep their key/hash and tombstones (KEY-same). TransactionCache.Commit empties the pending map after the hand-over on every return (DOM-txreset).",
   note="Decides the copy-on-boundary, layering and deep-copy clauses only; 'after commit the values are what lookups return' is value-level and not decided. Trusted: go/types+go/ssa model of the source; CHA resolution of interface calls; third-party LRU treated as a named API.",
   technique="forward provenance dataflow on go/ssa (field-sensitive cells), repo call-graph who-may-call, Clone() implementation audit",
   ref="DESIGN.md section 5 C07"),
}

NOT_APPLICABLE = {
}

ALL = ["C%02d" % i for i in range(1, 21)]

def main():
    checks = []
    for pid in ALL:
        c = CHECKS.get(pid)
        if not c:
            continue
        checks.append({
            "property_id": pid,
            "quick_cmd": "./check %s quick" % pid,
            "thorough_cmd": "./check %s thorough" % pid,
            "evidence_file": "/verif/evidence/%s.json" % pid,
            "replay_cmd_template": "cat {path}",
            "engine": "verifsa",
            "level_claimed": {"category": "other", "text": c["text"], "design_ref": c["ref"]},
            "level_note": c["note"],
            "technique": c["technique"],
        })
    na = []
    for pid in ALL:
        if pid in CHECKS:
            continue
        na.append({"property_id": pid, "reason": NOT_APPLICABLE.get(pid, "check not built yet (engine under construction); will be claimed or declined with a reason")})
    m = {
        "version": 1,
        "setup_cmd": "cd /verif/sa && GOFLAGS=-mod=mod GOPROXY=off GOSUMDB=off GOTOOLCHAIN=local GOWORK=off go build -o /verif/bin/verifsa ./cmd/verifsa",
        "hooks": {
            "guard": "verif",
            "enable": "the analyser loads /repo with -tags=verif (no hook file exists; static analysis needs no instrumentation)",
            "baseline_off_cmd": "cd /repo && GOFLAGS=-mod=mod GOPROXY=off GOSUMDB=off GOTOOLCHAIN=local go test -mod=mod -json -vet=off -count=1 ./...",
            "source_commits": [],
            "add_only": True,
        },
        "engines": [{"name": "verifsa", "path": "/verif/sa", "serves_properties": sorted(CHECKS), "kind_free_text": "repository-specific static analyser: go/packages + go/types + go/ssa, own class-hierarchy call graph, provenance/lockset dataflow, path-sensitive guard checks"}],
        "checks": checks,
        "not_applicable": na,
        "notes": "All claimed properties are at level 'other': structural necessary conditions decided statically on /repo's current source; see DESIGN.md.",
    }
    json.dump(m, open("/verif/MANIFEST.json", "w"), indent=1)
    print("checks:", len(checks), "not_applicable:", len(na))

main()
